//! srx — independent second explorer on stateright 0.31, used only to cross-check the state counts
//! of mcx's explicit-state search (same transition system: real cozy_chess::Board, actions = the
//! library's legal moves, no null moves).
//!
//!   srx <depth> <fen>...        prints "unique=<n> max_depth=<d> violations=<k>"
use cozy_chess::*;
use stateright::*;

struct Chess {
    roots: Vec<Board>,
}

impl Model for Chess {
    type State = Board;
    type Action = Move;

    fn init_states(&self) -> Vec<Board> {
        self.roots.clone()
    }
    fn actions(&self, s: &Board, actions: &mut Vec<Move>) {
        s.generate_moves(|pm| {
            actions.extend(pm);
            false
        });
    }
    fn next_state(&self, s: &Board, a: Move) -> Option<Board> {
        let mut c = s.clone();
        c.play_unchecked(a);
        Some(c)
    }
    fn properties(&self) -> Vec<Property<Self>> {
        vec![Property::always("board equals the board freshly parsed from its own text", |_, s: &Board| {
            match Board::from_fen(&format!("{:#}", s), true) {
                Ok(f) => &f == s,
                Err(_) => false,
            }
        })]
    }
}

fn main() {
    let args: Vec<String> = std::env::args().collect();
    let depth: usize = args[1].parse().expect("depth");
    let roots: Vec<Board> = args[2..].iter().map(|f| Board::from_fen(f, true).or_else(|_| f.parse()).expect("root fen")).collect();
    let checker = Chess { roots }.checker().target_max_depth(depth).threads(16).spawn_bfs().join();
    let violations = checker.discoveries().len();
    println!("unique={} max_depth={} violations={}", checker.unique_state_count(), checker.max_depth(), violations);
}
