#!/bin/bash
# Offline build of every configuration of the checker + deep self-test of the reference model.
set -u
cd /verif || exit 2
export CARGO_NET_OFFLINE=true
./check build || exit 2
/verif/target/magic-rel/release/mcx selftest deep || exit 2
echo "setup ok"
