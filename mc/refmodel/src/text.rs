//! Reference FEN / Shredder-FEN writer and strict decoder.

use crate::{file_of, sq, sq_name, Col, Kind, Pos, Sq, LONG, SHORT};

#[derive(Clone, Copy, PartialEq, Eq, Debug)]
pub enum Notation {
    /// KQkq (K = short right on the h-file, Q = long right on the a-file)
    Standard,
    /// rook file letters, upper case for White
    Shredder,
    /// what `str::parse` accepts: either of the above
    Either,
}

/// Which part of a record is at fault (first, in field order).
#[derive(Clone, Copy, PartialEq, Eq, Debug, Hash)]
pub enum FenFault {
    TooFewFields,
    TooManyFields,
    Board,
    Side,
    Castling,
    EnPassant,
    HalfMove,
    FullMove,
}

/// canonical six-field record
pub fn to_fen(p: &Pos, shredder: bool) -> String {
    let mut s = String::with_capacity(100);
    for rank in (0..8u8).rev() {
        let mut empty = 0u8;
        for file in 0..8u8 {
            match p.sq[sq(file, rank) as usize] {
                Some((k, c)) => {
                    if empty > 0 {
                        s.push((b'0' + empty) as char);
                        empty = 0;
                    }
                    s.push(if c == Col::W { k.upper() } else { k.lower() });
                }
                None => empty += 1,
            }
        }
        if empty > 0 {
            s.push((b'0' + empty) as char);
        }
        if rank > 0 {
            s.push('/');
        }
    }
    s.push(' ');
    s.push(if p.stm == Col::W { 'w' } else { 'b' });
    s.push(' ');
    let mut any = false;
    for c in Col::ALL {
        for wing in [SHORT, LONG] {
            if let Some(f) = p.rights[c as usize][wing] {
                let ch = if shredder {
                    (b'a' + f) as char
                } else if wing == SHORT {
                    'k'
                } else {
                    'q'
                };
                s.push(if c == Col::W { ch.to_ascii_uppercase() } else { ch });
                any = true;
            }
        }
    }
    if !any {
        s.push('-');
    }
    s.push(' ');
    match p.ep {
        Some(t) => s.push_str(&sq_name(t)),
        None => s.push('-'),
    }
    use std::fmt::Write;
    let _ = write!(s, " {} {}", p.hm, p.fm);
    s
}

fn parse_square(s: &str) -> Option<Sq> {
    let b = s.as_bytes();
    if b.len() != 2 || !(b'a'..=b'h').contains(&b[0]) || !(b'1'..=b'8').contains(&b[1]) {
        return None;
    }
    Some(sq(b[0] - b'a', b[1] - b'1'))
}

/// decimal number with optional leading '+' and leading zeros (what Rust's integer parser reads;
/// accepting or rejecting such non-canonical spellings is both allowed, the denoted value is not)
fn parse_number(s: &str) -> Option<u64> {
    let d = s.strip_prefix('+').unwrap_or(s);
    if d.is_empty() || !d.bytes().all(|b| b.is_ascii_digit()) {
        return None;
    }
    // any number of leading zeros; a number too large for u64 is still a number (out of every range)
    let sig = d.trim_start_matches('0');
    if sig.is_empty() {
        return Some(0);
    }
    if sig.len() > 18 {
        return Some(u64::MAX);
    }
    sig.parse().ok()
}

pub fn decode_placement(field: &str) -> Option<[Option<(Kind, Col)>; 64]> {
    let ranks: Vec<&str> = field.split('/').collect();
    if ranks.len() != 8 {
        return None;
    }
    let mut out = [None; 64];
    for (i, row) in ranks.iter().enumerate() {
        let rank = 7 - i as u8;
        let mut file = 0u32;
        for ch in row.chars() {
            if let Some(d) = ch.to_digit(10) {
                file += d;
            } else {
                let k = Kind::from_lower(ch.to_ascii_lowercase())?;
                if !ch.is_ascii_alphabetic() {
                    return None;
                }
                if file >= 8 {
                    return None;
                }
                let c = if ch.is_ascii_uppercase() { Col::W } else { Col::B };
                out[sq(file as u8, rank) as usize] = Some((k, c));
                file += 1;
            }
            if file > 8 {
                return None;
            }
        }
        if file != 8 {
            return None;
        }
    }
    Some(out)
}

fn decode_castling(field: &str, p: &Pos, shredder: bool) -> Option<[[Option<u8>; 2]; 2]> {
    let mut rights = [[None; 2]; 2];
    if field == "-" {
        return Some(rights);
    }
    if field.is_empty() {
        return None;
    }
    for ch in field.chars() {
        if !ch.is_ascii_alphabetic() {
            return None;
        }
        let c = if ch.is_ascii_uppercase() { Col::W } else { Col::B };
        let l = ch.to_ascii_lowercase();
        let (wing, file) = if shredder {
            if !('a'..='h').contains(&l) {
                return None;
            }
            let f = l as u8 - b'a';
            // the wing is determined by the side of the king the rook is on
            if p.count(Kind::K, c) != 1 {
                return None;
            }
            let kf = file_of(p.king_sq(c).unwrap());
            if f > kf {
                (SHORT, f)
            } else if f < kf {
                (LONG, f)
            } else {
                return None;
            }
        } else {
            match l {
                'k' => (SHORT, 7),
                'q' => (LONG, 0),
                _ => return None,
            }
        };
        if rights[c as usize][wing].is_some() {
            return None;
        }
        rights[c as usize][wing] = Some(file);
    }
    Some(rights)
}

/// All positions the text can denote under the given notation (0, 1 or — for `Either` when the
/// two notations disagree — 2 readings), or the first fault when there is none. No soundness check:
/// this is only *what the text says*.
pub fn decode_fen_all(text: &str, notation: Notation) -> Result<Vec<Pos>, FenFault> {
    let fields: Vec<&str> = text.split(' ').collect();
    let get = |i: usize| -> Result<&str, FenFault> { fields.get(i).copied().ok_or(FenFault::TooFewFields) };
    let mut p = Pos::empty();
    p.sq = decode_placement(get(0)?).ok_or(FenFault::Board)?;
    p.stm = match get(1)? {
        "w" => Col::W,
        "b" => Col::B,
        _ => return Err(FenFault::Side),
    };
    let cf = get(2)?;
    let mut readings = Vec::new();
    let modes: &[bool] = match notation {
        Notation::Standard => &[false],
        Notation::Shredder => &[true],
        Notation::Either => &[false, true],
    };
    for &m in modes {
        if let Some(r) = decode_castling(cf, &p, m) {
            if !readings.contains(&r) {
                readings.push(r);
            }
        }
    }
    if readings.is_empty() {
        return Err(FenFault::Castling);
    }
    p.ep = match get(3)? {
        "-" => None,
        s => Some(parse_square(s).ok_or(FenFault::EnPassant)?),
    };
    let hm = parse_number(get(4)?).ok_or(FenFault::HalfMove)?;
    if hm > 255 {
        return Err(FenFault::HalfMove);
    }
    p.hm = hm as u8;
    let fm = parse_number(get(5)?).ok_or(FenFault::FullMove)?;
    if fm > 65535 {
        return Err(FenFault::FullMove);
    }
    p.fm = fm as u16;
    if fields.len() > 6 {
        return Err(FenFault::TooManyFields);
    }
    Ok(readings
        .into_iter()
        .map(|r| {
            let mut q = p.clone();
            q.rights = r;
            q
        })
        .collect())
}

/// first reading (Standard preferred under `Either`)
pub fn decode_fen(text: &str, notation: Notation) -> Result<Pos, FenFault> {
    decode_fen_all(text, notation).map(|mut v| v.remove(0))
}

/// A raw state is *expressible* when the Shredder-FEN record written for it denotes exactly it.
pub fn expressible(p: &Pos) -> bool {
    for c in 0..2 {
        for w in 0..2 {
            if matches!(p.rights[c][w], Some(f) if f > 7) {
                return false;
            }
        }
    }
    match decode_fen(&to_fen(p, true), Notation::Shredder) {
        Ok(q) => &q == p,
        Err(_) => false,
    }
}
