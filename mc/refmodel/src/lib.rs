//! Reference model of chess / Chess960 used as the oracle of the model checker.
//!
//! Deliberately boring: a mailbox board, coordinate arithmetic, ray *walking*, make-the-move-and-
//! look-whether-the-king-is-attacked legality. No bitboards, no tables, no incremental state, and
//! no dependency on cozy-chess or its `types` crate.
//!
//! Squares are 0..64 with a1 = 0, b1 = 1, ..., h8 = 63 (file = sq & 7, rank = sq >> 3).

pub mod geom;
pub mod text;
pub mod san;

pub type Sq = u8;

#[derive(Clone, Copy, PartialEq, Eq, Hash, Debug, PartialOrd, Ord)]
pub enum Kind {
    P = 0,
    N = 1,
    B = 2,
    R = 3,
    Q = 4,
    K = 5,
}

impl Kind {
    pub const ALL: [Kind; 6] = [Kind::P, Kind::N, Kind::B, Kind::R, Kind::Q, Kind::K];
    pub fn lower(self) -> char {
        match self {
            Kind::P => 'p',
            Kind::N => 'n',
            Kind::B => 'b',
            Kind::R => 'r',
            Kind::Q => 'q',
            Kind::K => 'k',
        }
    }
    pub fn upper(self) -> char {
        self.lower().to_ascii_uppercase()
    }
    pub fn from_lower(c: char) -> Option<Kind> {
        Some(match c {
            'p' => Kind::P,
            'n' => Kind::N,
            'b' => Kind::B,
            'r' => Kind::R,
            'q' => Kind::Q,
            'k' => Kind::K,
            _ => return None,
        })
    }
}

#[derive(Clone, Copy, PartialEq, Eq, Hash, Debug, PartialOrd, Ord)]
pub enum Col {
    W = 0,
    B = 1,
}

impl Col {
    pub const ALL: [Col; 2] = [Col::W, Col::B];
    pub fn other(self) -> Col {
        match self {
            Col::W => Col::B,
            Col::B => Col::W,
        }
    }
    /// rank index of this colour's back rank
    pub fn back_rank(self) -> u8 {
        match self {
            Col::W => 0,
            Col::B => 7,
        }
    }
    /// +1 for white, -1 for black
    pub fn dir(self) -> i32 {
        match self {
            Col::W => 1,
            Col::B => -1,
        }
    }
    /// n-th rank (0-based) seen from this colour
    pub fn rel_rank(self, n: u8) -> u8 {
        match self {
            Col::W => n,
            Col::B => 7 - n,
        }
    }
}

pub const SHORT: usize = 0;
pub const LONG: usize = 1;

#[inline]
pub fn file_of(s: Sq) -> u8 {
    s & 7
}
#[inline]
pub fn rank_of(s: Sq) -> u8 {
    s >> 3
}
#[inline]
pub fn sq(file: u8, rank: u8) -> Sq {
    rank * 8 + file
}
/// coordinate step with bounds check
#[inline]
pub fn step(s: Sq, df: i32, dr: i32) -> Option<Sq> {
    let f = file_of(s) as i32 + df;
    let r = rank_of(s) as i32 + dr;
    if (0..8).contains(&f) && (0..8).contains(&r) {
        Some((r * 8 + f) as Sq)
    } else {
        None
    }
}
pub fn sq_name(s: Sq) -> String {
    format!("{}{}", (b'a' + file_of(s)) as char, (b'1' + rank_of(s)) as char)
}

#[derive(Clone, Copy, PartialEq, Eq, Hash, Debug, PartialOrd, Ord)]
pub struct Mv {
    pub from: Sq,
    pub to: Sq,
    pub promo: Option<Kind>,
}

impl Mv {
    pub fn new(from: Sq, to: Sq) -> Mv {
        Mv { from, to, promo: None }
    }
    /// plain coordinate text (library encoding, castling = king to rook)
    pub fn text(&self) -> String {
        let mut s = format!("{}{}", sq_name(self.from), sq_name(self.to));
        if let Some(p) = self.promo {
            s.push(p.lower());
        }
        s
    }
}

/// A position (also used as a raw, possibly unsound, builder state).
/// `ep` is the en-passant *target square* (e.g. e3 / e6); in a sound position it is on the sixth
/// rank seen from the side to move.
#[derive(Clone, PartialEq, Eq, Hash, Debug)]
pub struct Pos {
    pub sq: [Option<(Kind, Col)>; 64],
    pub stm: Col,
    /// rights[colour][SHORT|LONG] = file of the castling rook
    pub rights: [[Option<u8>; 2]; 2],
    pub ep: Option<Sq>,
    pub hm: u8,
    pub fm: u16,
}

pub const KNIGHT_D: [(i32, i32); 8] = [(1, 2), (2, 1), (2, -1), (1, -2), (-1, -2), (-2, -1), (-2, 1), (-1, 2)];
pub const KING_D: [(i32, i32); 8] = [(0, 1), (1, 1), (1, 0), (1, -1), (0, -1), (-1, -1), (-1, 0), (-1, 1)];
pub const ORTHO_D: [(i32, i32); 4] = [(0, 1), (1, 0), (0, -1), (-1, 0)];
pub const DIAG_D: [(i32, i32); 4] = [(1, 1), (1, -1), (-1, -1), (-1, 1)];

impl Pos {
    pub fn empty() -> Pos {
        Pos { sq: [None; 64], stm: Col::W, rights: [[None; 2]; 2], ep: None, hm: 0, fm: 1 }
    }

    pub fn king_sq(&self, c: Col) -> Option<Sq> {
        (0..64u8).find(|&s| self.sq[s as usize] == Some((Kind::K, c)))
    }

    pub fn count(&self, k: Kind, c: Col) -> usize {
        self.sq.iter().filter(|&&x| x == Some((k, c))).count()
    }

    /// squares holding pieces of colour `by` that attack `target` (the piece on `target`, if any,
    /// is irrelevant; pieces elsewhere block sliders).
    pub fn attackers(&self, target: Sq, by: Col) -> Vec<Sq> {
        let mut out = Vec::with_capacity(4);
        for &(df, dr) in &KNIGHT_D {
            if let Some(s) = step(target, df, dr) {
                if self.sq[s as usize] == Some((Kind::N, by)) {
                    out.push(s);
                }
            }
        }
        for &(df, dr) in &KING_D {
            if let Some(s) = step(target, df, dr) {
                if self.sq[s as usize] == Some((Kind::K, by)) {
                    out.push(s);
                }
            }
        }
        // a pawn of colour `by` standing on p attacks p + (±1, dir(by)); so look one rank "behind".
        for df in [-1, 1] {
            if let Some(s) = step(target, df, -by.dir()) {
                if self.sq[s as usize] == Some((Kind::P, by)) {
                    out.push(s);
                }
            }
        }
        for (dirs, a, b) in [(&ORTHO_D, Kind::R, Kind::Q), (&DIAG_D, Kind::B, Kind::Q)] {
            for &(df, dr) in dirs.iter() {
                let mut cur = target;
                while let Some(s) = step(cur, df, dr) {
                    cur = s;
                    if let Some((k, c)) = self.sq[s as usize] {
                        if c == by && (k == a || k == b) {
                            out.push(s);
                        }
                        break;
                    }
                }
            }
        }
        out.sort_unstable();
        out
    }

    pub fn attacked(&self, target: Sq, by: Col) -> bool {
        !self.attackers(target, by).is_empty()
    }

    /// is the king of colour `c` attacked (false when there is no such king)
    pub fn in_check(&self, c: Col) -> bool {
        match self.king_sq(c) {
            Some(k) => self.attacked(k, c.other()),
            None => false,
        }
    }

    /// C03, first sentence: the enemy pieces attacking the mover's king.
    pub fn checkers(&self) -> Vec<Sq> {
        match self.king_sq(self.stm) {
            Some(k) => self.attackers(k, self.stm.other()),
            None => vec![],
        }
    }

    /// C03, literal transcription: the pieces of either colour that stand alone between the
    /// mover's king and an enemy rook, bishop or queen aligned with it on a line that piece moves
    /// along.
    pub fn pinned(&self) -> Vec<Sq> {
        let mut out = Vec::new();
        let us = self.stm;
        let k = match self.king_sq(us) {
            Some(k) => k,
            None => return out,
        };
        for s in 0..64u8 {
            if let Some((kind, c)) = self.sq[s as usize] {
                if c == us || s == k {
                    continue;
                }
                let df = file_of(s) as i32 - file_of(k) as i32;
                let dr = rank_of(s) as i32 - rank_of(k) as i32;
                let ortho = df == 0 || dr == 0;
                let diag = df.abs() == dr.abs();
                let moves_along = match kind {
                    Kind::R => ortho,
                    Kind::B => diag,
                    Kind::Q => ortho || diag,
                    _ => false,
                };
                if !moves_along {
                    continue;
                }
                let (sf, sr) = (df.signum(), dr.signum());
                let mut between = Vec::new();
                let mut cur = k;
                loop {
                    cur = step(cur, sf, sr).unwrap();
                    if cur == s {
                        break;
                    }
                    if self.sq[cur as usize].is_some() {
                        between.push(cur);
                    }
                }
                if between.len() == 1 && !out.contains(&between[0]) {
                    out.push(between[0]);
                }
            }
        }
        out.sort_unstable();
        out
    }

    fn push_pawn_move(out: &mut Vec<Mv>, from: Sq, to: Sq, c: Col) {
        if rank_of(to) == c.rel_rank(7) {
            for p in [Kind::N, Kind::B, Kind::R, Kind::Q] {
                out.push(Mv { from, to, promo: Some(p) });
            }
        } else {
            out.push(Mv { from, to, promo: None });
        }
    }

    /// pseudo-legal moves of the side to move, castling excluded
    fn pseudo(&self) -> Vec<Mv> {
        let us = self.stm;
        let mut out = Vec::with_capacity(96);
        for from in 0..64u8 {
            let (kind, c) = match self.sq[from as usize] {
                Some(x) => x,
                None => continue,
            };
            if c != us {
                continue;
            }
            match kind {
                Kind::P => {
                    let d = us.dir();
                    if let Some(one) = step(from, 0, d) {
                        if self.sq[one as usize].is_none() {
                            Self::push_pawn_move(&mut out, from, one, us);
                            if rank_of(from) == us.rel_rank(1) {
                                if let Some(two) = step(one, 0, d) {
                                    if self.sq[two as usize].is_none() {
                                        out.push(Mv::new(from, two));
                                    }
                                }
                            }
                        }
                    }
                    for df in [-1, 1] {
                        if let Some(t) = step(from, df, d) {
                            match self.sq[t as usize] {
                                Some((_, tc)) if tc != us => Self::push_pawn_move(&mut out, from, t, us),
                                None if self.ep == Some(t) => out.push(Mv::new(from, t)),
                                _ => {}
                            }
                        }
                    }
                }
                Kind::N | Kind::K => {
                    let ds = if kind == Kind::N { &KNIGHT_D } else { &KING_D };
                    for &(df, dr) in ds {
                        if let Some(t) = step(from, df, dr) {
                            match self.sq[t as usize] {
                                Some((_, tc)) if tc == us => {}
                                _ => out.push(Mv::new(from, t)),
                            }
                        }
                    }
                }
                Kind::B | Kind::R | Kind::Q => {
                    let mut dirs: Vec<(i32, i32)> = Vec::with_capacity(8);
                    if kind != Kind::B {
                        dirs.extend_from_slice(&ORTHO_D);
                    }
                    if kind != Kind::R {
                        dirs.extend_from_slice(&DIAG_D);
                    }
                    for (df, dr) in dirs {
                        let mut cur = from;
                        while let Some(t) = step(cur, df, dr) {
                            cur = t;
                            match self.sq[t as usize] {
                                None => out.push(Mv::new(from, t)),
                                Some((_, tc)) => {
                                    if tc != us {
                                        out.push(Mv::new(from, t));
                                    }
                                    break;
                                }
                            }
                        }
                    }
                }
            }
        }
        out
    }

    /// true if `mv` (in library encoding) is a castling move in this position
    pub fn is_castle(&self, mv: Mv) -> bool {
        matches!(self.sq[mv.from as usize], Some((Kind::K, c)) if c == self.stm)
            && matches!(self.sq[mv.to as usize], Some((_, c)) if c == self.stm)
    }

    pub fn is_ep_capture(&self, mv: Mv) -> bool {
        matches!(self.sq[mv.from as usize], Some((Kind::P, _)))
            && self.ep == Some(mv.to)
            && self.sq[mv.to as usize].is_none()
            && file_of(mv.from) != file_of(mv.to)
    }

    pub fn is_capture(&self, mv: Mv) -> bool {
        if self.is_castle(mv) {
            return false;
        }
        self.sq[mv.to as usize].is_some() || self.is_ep_capture(mv)
    }

    /// Castling per the FIDE Chess960 rule, reported as king-moves-to-own-rook.
    fn castles(&self) -> Vec<Mv> {
        let us = self.stm;
        let mut out = Vec::new();
        let ks = match self.king_sq(us) {
            Some(k) => k,
            None => return out,
        };
        let br = us.back_rank();
        if rank_of(ks) != br {
            return out;
        }
        if self.attacked(ks, us.other()) {
            return out;
        }
        for wing in [SHORT, LONG] {
            let rf = match self.rights[us as usize][wing] {
                Some(f) => f,
                None => continue,
            };
            let rs = sq(rf, br);
            if self.sq[rs as usize] != Some((Kind::R, us)) {
                continue;
            }
            let (kd, rd) = if wing == SHORT { (sq(6, br), sq(5, br)) } else { (sq(2, br), sq(3, br)) };
            // every square between king origin and king destination and between rook origin and
            // rook destination (destinations included) must be empty apart from those two pieces
            let mut ok = true;
            for (a, b) in [(ks, kd), (rs, rd)] {
                let (lo, hi) = (a.min(b), a.max(b));
                for s in lo..=hi {
                    if s != ks && s != rs && self.sq[s as usize].is_some() {
                        ok = false;
                    }
                }
            }
            if !ok {
                continue;
            }
            // no square the king crosses or lands on is attacked (king lifted off the board)
            let mut lifted = self.clone();
            lifted.sq[ks as usize] = None;
            let (lo, hi) = (ks.min(kd), ks.max(kd));
            for s in lo..=hi {
                if s != ks && lifted.attacked(s, us.other()) {
                    ok = false;
                }
            }
            if !ok {
                continue;
            }
            // and the resulting position does not leave the king attacked
            let mv = Mv::new(ks, rs);
            let after = self.make(mv);
            if after.attacked(kd, us.other()) {
                continue;
            }
            out.push(mv);
        }
        out
    }

    /// all legal moves (library encoding), sorted
    pub fn legal_moves(&self) -> Vec<Mv> {
        let us = self.stm;
        let mut out = Vec::with_capacity(96);
        for mv in self.pseudo() {
            // capturing a king is never a legal move
            if matches!(self.sq[mv.to as usize], Some((Kind::K, _))) {
                continue;
            }
            let after = self.make(mv);
            if !after.in_check(us) {
                out.push(mv);
            }
        }
        out.extend(self.castles());
        out.sort_unstable();
        out
    }

    /// successor position per the rules stated in C02 (mv must be legal or at least pseudo-legal)
    pub fn make(&self, mv: Mv) -> Pos {
        let us = self.stm;
        let them = us.other();
        let mut n = self.clone();
        let (kind, _) = self.sq[mv.from as usize].expect("refmodel::make: empty origin");
        let castle = self.is_castle(mv);
        let capture = self.is_capture(mv);
        let br = us.back_rank();
        if castle {
            let short = file_of(mv.to) > file_of(mv.from);
            let (kf, rf) = if short { (6, 5) } else { (2, 3) };
            n.sq[mv.from as usize] = None;
            n.sq[mv.to as usize] = None;
            n.sq[sq(kf, br) as usize] = Some((Kind::K, us));
            n.sq[sq(rf, br) as usize] = Some((Kind::R, us));
        } else {
            if self.is_ep_capture(mv) {
                let victim = sq(file_of(mv.to), rank_of(mv.from));
                n.sq[victim as usize] = None;
            }
            n.sq[mv.from as usize] = None;
            n.sq[mv.to as usize] = Some((mv.promo.unwrap_or(kind), us));
        }
        // castling rights
        if kind == Kind::K {
            n.rights[us as usize] = [None, None];
        }
        for wing in [SHORT, LONG] {
            if let Some(f) = self.rights[us as usize][wing] {
                if kind == Kind::R && mv.from == sq(f, br) {
                    n.rights[us as usize][wing] = None;
                }
            }
            if let Some(f) = self.rights[them as usize][wing] {
                if !castle && capture && mv.to == sq(f, them.back_rank()) {
                    n.rights[them as usize][wing] = None;
                }
            }
        }
        // en passant: set precisely after a two-square pawn advance
        n.ep = None;
        if kind == Kind::P && (rank_of(mv.from) as i32 - rank_of(mv.to) as i32).abs() == 2 {
            n.ep = Some(sq(file_of(mv.from), (rank_of(mv.from) + rank_of(mv.to)) / 2));
        }
        // clocks
        if kind == Kind::P || capture {
            n.hm = 0;
        } else {
            n.hm = if self.hm >= 100 { 100 } else { self.hm + 1 };
        }
        if us == Col::B {
            n.fm = self.fm.saturating_add(1);
        }
        n.stm = them;
        n
    }

    /// C14: pass the turn
    pub fn null(&self) -> Pos {
        let mut n = self.clone();
        n.stm = self.stm.other();
        n.ep = None;
        n.hm = if self.hm >= 100 { 100 } else { self.hm + 1 };
        if self.stm == Col::B {
            n.fm = self.fm.saturating_add(1);
        }
        n
    }

    /// C06 clause by clause; returns the first failed clause.
    pub fn sound(&self) -> Result<(), &'static str> {
        for c in Col::ALL {
            if self.count(Kind::K, c) != 1 {
                return Err("not exactly one king per side");
            }
        }
        let wk = self.king_sq(Col::W).unwrap();
        let bk = self.king_sq(Col::B).unwrap();
        if (file_of(wk) as i32 - file_of(bk) as i32).abs() <= 1 && (rank_of(wk) as i32 - rank_of(bk) as i32).abs() <= 1 {
            return Err("kings adjacent");
        }
        for c in Col::ALL {
            let pieces = self.sq.iter().filter(|x| matches!(x, Some((_, cc)) if *cc == c)).count();
            if pieces > 16 {
                return Err("more than 16 pieces for one side");
            }
            if self.count(Kind::P, c) > 8 {
                return Err("more than 8 pawns for one side");
            }
        }
        for s in 0..64u8 {
            if matches!(self.sq[s as usize], Some((Kind::P, _))) && (rank_of(s) == 0 || rank_of(s) == 7) {
                return Err("pawn on first or eighth rank");
            }
        }
        if self.in_check(self.stm.other()) {
            return Err("side not to move is in check");
        }
        for c in Col::ALL {
            let k = self.king_sq(c).unwrap();
            for wing in [SHORT, LONG] {
                if let Some(f) = self.rights[c as usize][wing] {
                    if f > 7 {
                        return Err("castling right names no file");
                    }
                    if rank_of(k) != c.back_rank() {
                        return Err("castling right but king not on back rank");
                    }
                    if self.sq[sq(f, c.back_rank()) as usize] != Some((Kind::R, c)) {
                        return Err("castling right without own rook on the named file");
                    }
                    let right_side = if wing == SHORT { f > file_of(k) } else { f < file_of(k) };
                    if !right_side {
                        return Err("castling right on the wrong side of the king");
                    }
                }
            }
        }
        if let Some(t) = self.ep {
            let us = self.stm;
            if rank_of(t) != us.rel_rank(5) {
                return Err("en-passant square on the wrong rank");
            }
            let pawn = sq(file_of(t), us.rel_rank(4));
            let origin = sq(file_of(t), us.rel_rank(6));
            if self.sq[pawn as usize] != Some((Kind::P, us.other())) {
                return Err("en-passant file without an enemy pawn that just advanced");
            }
            if self.sq[origin as usize].is_some() {
                return Err("en-passant: origin square of the double push occupied");
            }
            if self.sq[t as usize].is_some() {
                return Err("en-passant: passed square occupied");
            }
        }
        if self.hm > 100 {
            return Err("half-move clock out of range");
        }
        if self.fm == 0 {
            return Err("full-move number out of range");
        }
        Ok(())
    }

    /// which aspect (in FEN field order) the first failed soundness clause belongs to
    pub fn unsound_aspect(&self) -> Option<text::FenFault> {
        match self.sound() {
            Ok(()) => None,
            Err(e) if e.starts_with("castling right") => Some(text::FenFault::Castling),
            Err(e) if e.starts_with("en-passant") => Some(text::FenFault::EnPassant),
            Err(e) if e.starts_with("half-move") => Some(text::FenFault::HalfMove),
            Err(e) if e.starts_with("full-move") => Some(text::FenFault::FullMove),
            Err(_) => Some(text::FenFault::Board),
        }
    }

    pub fn status(&self) -> Status {
        let any = !self.legal_moves().is_empty();
        if !any {
            if self.in_check(self.stm) {
                Status::Won
            } else {
                Status::Drawn
            }
        } else if self.hm >= 100 {
            Status::Drawn
        } else {
            Status::Ongoing
        }
    }

    /// the en-passant file if some *pawn* has a legal en-passant capture, else none
    pub fn effective_ep(&self) -> Option<u8> {
        let t = self.ep?;
        if self.legal_moves().iter().any(|&m| self.is_ep_capture(m)) {
            Some(file_of(t))
        } else {
            None
        }
    }

    /// C13: FIDE position identity
    pub fn same_position(&self, o: &Pos) -> bool {
        self.sq == o.sq && self.stm == o.stm && self.rights == o.rights && self.effective_ep() == o.effective_ep()
    }

    pub fn perft(&self, depth: u32) -> u64 {
        if depth == 0 {
            return 1;
        }
        let ms = self.legal_moves();
        if depth == 1 {
            return ms.len() as u64;
        }
        ms.iter().map(|&m| self.make(m).perft(depth - 1)).sum()
    }
}

#[derive(Clone, Copy, PartialEq, Eq, Debug, Hash)]
pub enum Status {
    Won,
    Drawn,
    Ongoing,
}

/// Literature perft values, computed by the reference model alone. Returns the list of
/// (name, depth, expected, got) that disagree (empty = model validated).
pub fn self_test(deep: bool) -> Vec<(String, u32, u64, u64)> {
    let table: &[(&str, &[u64], usize, usize)] = &[
        // (fen, values from depth 1, quick depth, deep depth)
        ("rnbqkbnr/pppppppp/8/8/8/8/PPPPPPPP/RNBQKBNR w KQkq - 0 1", &[20, 400, 8902, 197281], 2, 4),
        ("r3k2r/p1ppqpb1/bn2pnp1/3PN3/1p2P3/2N2Q1p/PPPBBPPP/R3K2R w KQkq - 0 1", &[48, 2039, 97862], 2, 3),
        ("8/2p5/3p4/KP5r/1R3p1k/8/4P1P1/8 w - - 0 1", &[14, 191, 2812, 43238], 3, 4),
        ("r3k2r/Pppp1ppp/1b3nbN/nP6/BBP1P3/q4N2/Pp1P2PP/R2Q1RK1 w kq - 0 1", &[6, 264, 9467], 2, 3),
        ("rnbq1k1r/pp1Pbppp/2p5/8/2B5/8/PPP1NnPP/RNBQK2R w KQ - 1 8", &[44, 1486, 62379], 2, 3),
        ("r4rk1/1pp1qppp/p1np1n2/2b1p1B1/2B1P1b1/P1NP1N2/1PP1QPPP/R4RK1 w - - 0 10", &[46, 2079, 89890], 2, 3),
        ("1rqbkrbn/1ppppp1p/1n6/p1N3p1/8/2P4P/PP1PPPP1/1RQBKRBN w FBfb - 0 9", &[29, 502, 14569], 2, 3),
        ("rbbqn1kr/pp2p1pp/6n1/2pp1p2/2P4P/P7/BP1PPPP1/R1BQNNKR w HAha - 0 9", &[27, 916, 25798], 2, 3),
        ("rqbbknr1/1ppp2pp/p5n1/4pp2/P7/1PP5/1Q1PPPPP/R1BBKNRN w GAga - 0 9", &[24, 600, 15347], 2, 3),
        ("rkb2bnr/pp2pppp/2p1n3/3p4/q2P4/5NP1/PPP1PP1P/RKBNQBR1 w Aha - 0 9", &[29, 861, 24504], 2, 3),
    ];
    let mut bad = Vec::new();
    for (fen, vals, q, d) in table {
        let pos = match text::decode_fen(fen, text::Notation::Either) {
            Ok(p) => p,
            Err(e) => {
                bad.push((format!("{} (decode: {:?})", fen, e), 0, 0, 0));
                continue;
            }
        };
        let maxd = if deep { *d } else { *q };
        for depth in 1..=maxd {
            let got = pos.perft(depth as u32);
            if got != vals[depth - 1] {
                bad.push((fen.to_string(), depth as u32, vals[depth - 1], got));
            }
        }
    }
    bad
}
