//! Geometric definitions for C05, as u64 square sets (bit i = square i). Plain ray walking.

use crate::{file_of, rank_of, step, Col, Sq, DIAG_D, KING_D, KNIGHT_D, ORTHO_D};

#[inline]
pub fn bit(s: Sq) -> u64 {
    1u64 << s
}

fn walk(s: Sq, occ: u64, dirs: &[(i32, i32); 4]) -> u64 {
    let mut out = 0u64;
    for &(df, dr) in dirs {
        let mut cur = s;
        while let Some(t) = step(cur, df, dr) {
            cur = t;
            out |= bit(t);
            if occ & bit(t) != 0 {
                break;
            }
        }
    }
    out
}

/// squares reached by walking each orthogonal ray up to and including the first occupied square
pub fn rook_attacks(s: Sq, occ: u64) -> u64 {
    walk(s, occ, &ORTHO_D)
}
pub fn bishop_attacks(s: Sq, occ: u64) -> u64 {
    walk(s, occ, &DIAG_D)
}
pub fn rook_rays(s: Sq) -> u64 {
    walk(s, 0, &ORTHO_D)
}
pub fn bishop_rays(s: Sq) -> u64 {
    walk(s, 0, &DIAG_D)
}

fn leap(s: Sq, ds: &[(i32, i32)]) -> u64 {
    let mut out = 0;
    for &(df, dr) in ds {
        if let Some(t) = step(s, df, dr) {
            out |= bit(t);
        }
    }
    out
}
pub fn knight(s: Sq) -> u64 {
    leap(s, &KNIGHT_D)
}
pub fn king(s: Sq) -> u64 {
    leap(s, &KING_D)
}
pub fn pawn_attacks(s: Sq, c: Col) -> u64 {
    leap(s, &[(-1, c.dir()), (1, c.dir())])
}
/// single push if the square ahead is empty; double push from the colour's second rank if both are
pub fn pawn_quiets(s: Sq, c: Col, occ: u64) -> u64 {
    let mut out = 0;
    if let Some(one) = step(s, 0, c.dir()) {
        if occ & bit(one) == 0 {
            out |= bit(one);
            if rank_of(s) == c.rel_rank(1) {
                if let Some(two) = step(one, 0, c.dir()) {
                    if occ & bit(two) == 0 {
                        out |= bit(two);
                    }
                }
            }
        }
    }
    out
}

fn aligned(a: Sq, b: Sq) -> Option<(i32, i32)> {
    if a == b {
        return None;
    }
    let df = file_of(b) as i32 - file_of(a) as i32;
    let dr = rank_of(b) as i32 - rank_of(a) as i32;
    if df == 0 || dr == 0 || df.abs() == dr.abs() {
        Some((df.signum(), dr.signum()))
    } else {
        None
    }
}

/// squares strictly between two aligned squares (empty when not aligned or equal)
pub fn between(a: Sq, b: Sq) -> u64 {
    let mut out = 0;
    if let Some((df, dr)) = aligned(a, b) {
        let mut cur = step(a, df, dr).unwrap();
        while cur != b {
            out |= bit(cur);
            cur = step(cur, df, dr).unwrap();
        }
    }
    out
}

/// the full line through two aligned squares, edge to edge, both included (empty when not aligned
/// or equal)
pub fn line(a: Sq, b: Sq) -> u64 {
    let mut out = 0;
    if let Some((df, dr)) = aligned(a, b) {
        out |= bit(a);
        for (sf, sr) in [(df, dr), (-df, -dr)] {
            let mut cur = a;
            while let Some(t) = step(cur, sf, sr) {
                cur = t;
                out |= bit(t);
            }
        }
    }
    out
}
