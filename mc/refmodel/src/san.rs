//! Reference SAN writer (PGN standard), SAN component reader, and standard UCI writer.

use crate::{file_of, rank_of, sq, sq_name, Kind, Mv, Pos, Sq};

/// canonical SAN of a legal move
pub fn san(p: &Pos, mv: Mv) -> String {
    let legal = p.legal_moves();
    let after = p.make(mv);
    let check = after.in_check(after.stm);
    let mate = check && after.legal_moves().is_empty();
    let mut s = String::new();
    if p.is_castle(mv) {
        s.push_str(if file_of(mv.to) > file_of(mv.from) { "O-O" } else { "O-O-O" });
    } else {
        let (kind, _) = p.sq[mv.from as usize].unwrap();
        let capture = p.is_capture(mv);
        if kind == Kind::P {
            if capture {
                s.push((b'a' + file_of(mv.from)) as char);
            }
        } else {
            s.push(kind.upper());
            // other legal moves of the same kind of piece to the same square
            let others: Vec<Mv> = legal
                .iter()
                .copied()
                .filter(|m| {
                    m.to == mv.to
                        && m.from != mv.from
                        && !p.is_castle(*m)
                        && matches!(p.sq[m.from as usize], Some((k, _)) if k == kind)
                })
                .collect();
            if !others.is_empty() {
                let same_file = others.iter().any(|m| file_of(m.from) == file_of(mv.from));
                let same_rank = others.iter().any(|m| rank_of(m.from) == rank_of(mv.from));
                if !same_file {
                    s.push((b'a' + file_of(mv.from)) as char);
                } else if !same_rank {
                    s.push((b'1' + rank_of(mv.from)) as char);
                } else {
                    s.push_str(&sq_name(mv.from));
                }
            }
        }
        if capture {
            s.push('x');
        }
        s.push_str(&sq_name(mv.to));
        if let Some(pr) = mv.promo {
            s.push('=');
            s.push(pr.upper());
        }
    }
    if mate {
        s.push('#');
    } else if check {
        s.push('+');
    }
    s
}

/// The components written in a SAN-shaped text.
#[derive(Clone, Copy, PartialEq, Eq, Debug)]
pub enum SanComp {
    Castle { short: bool },
    Normal {
        /// None = no piece letter = pawn
        piece: Kind,
        from_file: Option<u8>,
        from_rank: Option<u8>,
        to: Sq,
        /// None = no promotion written
        promo: Option<Kind>,
    },
}

/// Decompose a text of the component grammar
///   [KQRBNP]? [a-h]? [1-8]? x? [a-h][1-8] (=?[KQRBNP])? [+#]?   |   O-O(-O)? [+#]?
/// Returns None for texts outside that grammar (for which the reader only has to return an error
/// or *some* legal move). The capture mark and the check suffix are annotations, not components.
pub fn components(text: &str) -> Option<SanComp> {
    if !text.is_ascii() {
        return None;
    }
    let mut b: Vec<u8> = text.bytes().collect();
    if matches!(b.last(), Some(b'+') | Some(b'#')) {
        b.pop();
    }
    if b == b"O-O" {
        return Some(SanComp::Castle { short: true });
    }
    if b == b"O-O-O" {
        return Some(SanComp::Castle { short: false });
    }
    let kind_of = |c: u8| -> Option<Kind> {
        if c.is_ascii_uppercase() {
            Kind::from_lower((c as char).to_ascii_lowercase())
        } else {
            None
        }
    };
    let mut promo = None;
    if let Some(&c) = b.last() {
        if let Some(k) = kind_of(c) {
            promo = Some(k);
            b.pop();
            if b.last() == Some(&b'=') {
                b.pop();
            }
        }
    }
    let r = b.pop()?;
    let f = b.pop()?;
    if !(b'1'..=b'8').contains(&r) || !(b'a'..=b'h').contains(&f) {
        return None;
    }
    let to = sq(f - b'a', r - b'1');
    if b.last() == Some(&b'x') {
        b.pop();
    }
    let mut from_rank = None;
    if let Some(&c) = b.last() {
        if (b'1'..=b'8').contains(&c) {
            from_rank = Some(c - b'1');
            b.pop();
        }
    }
    let mut from_file = None;
    if let Some(&c) = b.last() {
        if (b'a'..=b'h').contains(&c) {
            from_file = Some(c - b'a');
            b.pop();
        }
    }
    let piece = match b.pop() {
        None => Kind::P,
        Some(c) => kind_of(c)?,
    };
    if !b.is_empty() {
        return None;
    }
    Some(SanComp::Normal { piece, from_file, from_rank, to, promo })
}

/// does the legal move `mv` of `p` agree with every written component?
pub fn matches(p: &Pos, mv: Mv, c: &SanComp) -> bool {
    match *c {
        SanComp::Castle { short } => p.is_castle(mv) && (file_of(mv.to) > file_of(mv.from)) == short,
        SanComp::Normal { piece, from_file, from_rank, to, promo } => {
            if p.is_castle(mv) {
                return false;
            }
            let (k, _) = match p.sq[mv.from as usize] {
                Some(x) => x,
                None => return false,
            };
            k == piece
                && mv.to == to
                && mv.promo == promo
                && from_file.map_or(true, |f| file_of(mv.from) == f)
                && from_rank.map_or(true, |r| rank_of(mv.from) == r)
        }
    }
}

/// standard UCI text: castling written as the king's two-square-style move to the g/c file
pub fn uci(p: &Pos, mv: Mv) -> String {
    if p.is_castle(mv) {
        let kf = if file_of(mv.to) > file_of(mv.from) { 6 } else { 2 };
        return format!("{}{}", sq_name(mv.from), sq_name(sq(kf, rank_of(mv.from))));
    }
    mv.text()
}
