//! C06 soundness/acceptance, C07 text round trip, C09 builder vs parser, C10 hash purity,
//! C12 status, C13 same_position.

use super::*;
use crate::report::{Run, Sink, Tally};
use cozy_chess::*;
use refmodel::text::{expressible, to_fen};
use refmodel::{Kind, Pos};
use serde_json::{json, Value};
use std::collections::HashMap;
use std::sync::Mutex;

fn parse_guarded(text: &str, shredder_mode: Option<bool>) -> Result<Result<Board, FenParseError>, String> {
    guarded(|| match shredder_mode {
        Some(m) => Board::from_fen(text, m),
        None => text.parse::<Board>(),
    })
}

fn orthodox_files(p: &Pos) -> bool {
    // every castling right is on the a- or h-file
    p.rights.iter().flatten().all(|r| matches!(r, None | Some(0) | Some(7)))
}

// ------------------------------------------------------------------------------------------------
pub struct C06 {
    /// assert re-entry acceptance (only where the roots are provably reachable by legal play from a
    /// (double) Chess960 start position)
    pub acceptance: bool,
}
fn soundness(b: &Board, how: &str, case: Value, s: &Sink) {
    let p = alpha(b);
    if let Err(clause) = p.sound() {
        s.violation("C06.sound", &format!("{}:{}", how, clause), case, format!("{} handed out the board {} which violates: {}", how, shredder(b), clause));
    }
}
impl CandMonitor for C06 {
    fn candidate(&self, raw: &Pos, built: &Result<Result<Board, BoardBuilderError>, String>, t: &mut Tally, s: &Sink) {
        t.validated += 1;
        if let Ok(Ok(b)) = built {
            soundness(b, "BoardBuilder::build", cand_case(raw), s);
        }
        // the same state as text, when a record can say it
        if raw.rights.iter().flatten().all(|r| r.map_or(true, |f| f < 8)) {
            let rec = to_fen(raw, true);
            for (how, mode) in [("Board::from_fen(shredder)", Some(true)), ("str::parse", None)] {
                t.transitions += 1;
                if let Ok(Ok(b)) = parse_guarded(&rec, mode) {
                    t.hit("text-accepted");
                    soundness(&b, how, json!({"kind": "text", "text": rec, "mode": how}), s);
                } else {
                    t.hit("text-rejected");
                }
            }
            if orthodox_files(raw) {
                let rec = to_fen(raw, false);
                if let Ok(Ok(b)) = parse_guarded(&rec, Some(false)) {
                    soundness(&b, "Board::from_fen(standard)", json!({"kind": "text", "text": rec, "mode": "Board::from_fen(standard)"}), s);
                }
            }
        }
    }
}
impl Monitor for C06 {
    fn state(&self, v: &View, t: &mut Tally, s: &Sink) {
        t.validated += 1;
        // every board handed out by play / null_move is sound
        soundness(v.board, "play/null_move history", v.case(), s);
        self.setters(v, s);
        if !self.acceptance {
            return;
        }
        // acceptance: positions reached by legal play from a (double) Chess960 start are accepted
        // when re-entered as text or through the builder
        let txt = shredder(v.board);
        for (how, mode) in [("Board::from_fen(shredder)", Some(true)), ("str::parse", None)] {
            t.transitions += 1;
            match parse_guarded(&txt, mode) {
                Ok(Ok(_)) => t.hit("reentry-accepted"),
                Ok(Err(e)) => s.violation("C06.accept", &format!("{} rejects reachable position:{:?}", how, e), v.case(), format!("{} rejects {:?} ({}) although it was reached by legal play", how, txt, e)),
                Err(e) => s.violation("C06.accept", &format!("{} panics on reachable position", how), v.case(), format!("{} on {:?}: {}", how, txt, e)),
            }
        }
        if orthodox_files(v.pos) {
            let p = plain_fen(v.board);
            match parse_guarded(&p, Some(false)) {
                Ok(Ok(_)) => {}
                Ok(Err(e)) => s.violation("C06.accept", &format!("from_fen(standard) rejects reachable position:{:?}", e), v.case(), format!("from_fen(_, false) rejects {:?} ({})", p, e)),
                Err(e) => s.violation("C06.accept", "from_fen(standard) panics", v.case(), e),
            }
        }
        t.transitions += 1;
        match guarded(|| BoardBuilder::from_board(v.board).build()) {
            Ok(Ok(_)) => {}
            Ok(Err(e)) => s.violation("C06.accept", &format!("builder rejects reachable position:{:?}", e), v.case(), format!("BoardBuilder::from_board(..).build() rejects {} ({})", txt, e)),
            Err(e) => s.violation("C06.accept", "builder panics on reachable position", v.case(), e),
        }
    }
}
impl C06 {
    fn setters(&self, v: &View, s: &Sink) {
        // clock setters: panic exactly outside the range, and keep the board sound
        for n in [0u8, 1, 50, 99, 100, 101, 200, 255] {
            let mut c = v.board.clone();
            let r = guarded(|| c.set_halfmove_clock(n));
            match (r.is_ok(), n <= 100) {
                (true, true) => {
                    if c.halfmove_clock() != n {
                        s.violation("C06.setter", "set_halfmove_clock stores another value", v.case(), format!("set_halfmove_clock({}) left {}", n, c.halfmove_clock()));
                    }
                    soundness(&c, "set_halfmove_clock", v.case(), s);
                }
                (false, false) => {}
                (true, false) => s.violation("C06.setter", "set_halfmove_clock accepts out-of-range value", v.case(), format!("set_halfmove_clock({}) did not panic; clock now {}", n, c.halfmove_clock())),
                (false, true) => s.violation("C06.setter", "set_halfmove_clock panics on in-range value", v.case(), format!("set_halfmove_clock({}) panicked", n)),
            }
        }
        for n in [0u16, 1, 2, 65535] {
            let mut c = v.board.clone();
            let r = guarded(|| c.set_fullmove_number(n));
            match (r.is_ok(), n >= 1) {
                (true, true) => {
                    if c.fullmove_number() != n {
                        s.violation("C06.setter", "set_fullmove_number stores another value", v.case(), format!("set_fullmove_number({}) left {}", n, c.fullmove_number()));
                    }
                    soundness(&c, "set_fullmove_number", v.case(), s);
                }
                (false, false) => {}
                (true, false) => s.violation("C06.setter", "set_fullmove_number accepts 0", v.case(), "set_fullmove_number(0) did not panic".to_string()),
                (false, true) => s.violation("C06.setter", "set_fullmove_number panics on in-range value", v.case(), format!("set_fullmove_number({}) panicked", n)),
            }
        }
    }
}

// ------------------------------------------------------------------------------------------------
pub struct C07;
fn c07_board(b: &Board, p: &Pos, case: &dyn Fn() -> Value, t: &mut Tally, s: &Sink) {
    t.validated += 1;
    let txt = shredder(b);
    let want = to_fen(p, true);
    if txt != want {
        s.violation("C07.canonical", "shredder text is not the canonical record", case(), format!("Shredder-FEN text {:?}, canonical record {:?}", txt, want));
    }
    let plain = plain_fen(b);
    let want_plain = to_fen(p, false);
    if plain != want_plain {
        s.violation("C07.canonical", "plain text is not the canonical record", case(), format!("FEN text {:?}, canonical record {:?}", plain, want_plain));
    }
    let mut routes: Vec<(&'static str, String, Option<bool>)> = vec![("from_fen(shredder)", txt.clone(), Some(true)), ("parse(shredder text)", txt.clone(), None)];
    if orthodox_files(p) {
        t.hit("orthodox-rights");
        routes.push(("from_fen(standard)", plain.clone(), Some(false)));
        routes.push(("parse(plain text)", plain.clone(), None));
    } else {
        t.hit("chess960-rights");
    }
    for (how, text, mode) in routes {
        t.transitions += 1;
        match parse_guarded(&text, mode) {
            Ok(Ok(back)) => {
                if &back != b {
                    let what = if alpha(&back) != *p {
                        "position"
                    } else if back.hash() != b.hash() {
                        "hash"
                    } else if back.checkers() != b.checkers() {
                        "checkers"
                    } else if back.pinned() != b.pinned() {
                        "pinned"
                    } else {
                        "other"
                    };
                    s.violation("C07.roundtrip", &format!("{}:{}", how, what), case(), format!("{} of {:?} gives a board that differs in {}", how, text, what));
                } else {
                    let again = if mode == Some(false) || (mode.is_none() && text == plain && text != txt) { plain_fen(&back) } else { shredder(&back) };
                    if again != text {
                        s.violation("C07.reformat", how, case(), format!("parsing {:?} and formatting gives {:?}", text, again));
                    }
                }
            }
            Ok(Err(e)) => s.violation("C07.roundtrip", &format!("{}:rejected:{:?}", how, e), case(), format!("{} rejects the text {:?} produced by Display ({})", how, text, e)),
            Err(e) => s.violation("C07.roundtrip", &format!("{}:panic", how), case(), format!("{} on {:?}: {}", how, text, e)),
        }
    }
}
impl Monitor for C07 {
    fn state(&self, v: &View, t: &mut Tally, s: &Sink) {
        c07_board(v.board, v.pos, &|| v.case(), t, s);
    }
    fn merge(&self, a: &Board, ca: &dyn Fn() -> Value, b: &Board, cb: &dyn Fn() -> Value, t: &mut Tally, s: &Sink) {
        t.validated += 1;
        let (ta, tb) = (shredder(a), shredder(b));
        if (a == b) != (ta == tb) {
            s.violation("C07.bijection", "equal texts, unequal boards", merge_case(ca, cb), format!("boards equal: {}, Shredder-FEN texts equal: {} ({:?} / {:?})", a == b, ta == tb, ta, tb));
        }
    }
}

// ------------------------------------------------------------------------------------------------
pub struct C09;
/// which aspects of a raw state are wrong *on their own*, by the reference model
fn wrong_aspects(raw: &Pos) -> (bool, Option<bool>, Option<bool>, bool, bool) {
    let mut bare = raw.clone();
    bare.rights = [[None; 2]; 2];
    bare.ep = None;
    bare.hm = 0;
    bare.fm = 1;
    let p_wrong = bare.sound().is_err();
    let any_rights = raw.rights.iter().flatten().any(|r| r.is_some());
    let r_wrong = if !any_rights {
        Some(false)
    } else if p_wrong {
        None
    } else {
        let mut x = bare.clone();
        x.rights = raw.rights;
        Some(x.sound().is_err())
    };
    let e_wrong = if raw.ep.is_none() {
        Some(false)
    } else if p_wrong {
        None
    } else {
        let mut x = bare.clone();
        x.ep = raw.ep;
        Some(x.sound().is_err())
    };
    (p_wrong, r_wrong, e_wrong, raw.hm > 100, raw.fm == 0)
}
fn err_name(e: &BoardBuilderError) -> &'static str {
    match e {
        BoardBuilderError::InvalidBoard => "InvalidBoard",
        BoardBuilderError::InvalidCastlingRights => "InvalidCastlingRights",
        BoardBuilderError::InvalidEnPassant => "InvalidEnPassant",
        BoardBuilderError::InvalidHalfMoveClock => "InvalidHalfMoveClock",
        BoardBuilderError::InvalidFullmoveNumber => "InvalidFullmoveNumber",
    }
}
impl CandMonitor for C09 {
    fn candidate(&self, raw: &Pos, built: &Result<Result<Board, BoardBuilderError>, String>, t: &mut Tally, s: &Sink) {
        t.validated += 1;
        let built = match built {
            Ok(b) => b,
            Err(e) => {
                s.violation("C09.panic", "BoardBuilder::build panicked", cand_case(raw), format!("build() panicked: {}", e));
                return;
            }
        };
        if let Ok(b) = built {
            // the board built is the state given
            let got = alpha(b);
            if &got != raw {
                s.violation("C09.faithful", "built board is not the given state", cand_case(raw), format!("build() returned {} for the state {}", shredder(b), to_fen(raw, true)));
            }
            t.transitions += 1;
            match guarded(|| BoardBuilder::from_board(b).build()) {
                Ok(Ok(again)) => {
                    if &again != b {
                        s.violation("C09.roundtrip", "from_board(..).build() differs", cand_case(raw), format!("from_board(b).build() != b for {}", shredder(b)));
                    }
                }
                Ok(Err(e)) => s.violation("C09.roundtrip", &format!("from_board(..).build() rejected:{}", err_name(&e)), cand_case(raw), format!("from_board(b).build() fails with {} for accepted {}", e, shredder(b))),
                Err(e) => s.violation("C09.panic", "from_board(..).build() panicked", cand_case(raw), e),
            }
        }
        if expressible(raw) {
            t.hit("expressible");
            let rec = to_fen(raw, true);
            t.transitions += 1;
            match parse_guarded(&rec, Some(true)) {
                Err(_) => {} // parser panic: C08's business
                Ok(parsed) => match (built, &parsed) {
                    (Ok(b), Ok(pb)) => {
                        if b != pb {
                            s.violation("C09.agree", "builder and parser give different boards", cand_case(raw), format!("build() and from_fen({:?}) both succeed but the boards differ", rec));
                        }
                        t.hit("both-accept");
                    }
                    (Err(_), Err(_)) => t.hit("both-reject"),
                    (Ok(_), Err(e)) => s.violation("C09.agree", &format!("builder accepts, parser rejects:{:?}:checkers={}", e, raw.checkers().len().min(3)), cand_case(raw), format!("build() succeeds but from_fen({:?}, true) fails with {}", rec, e)),
                    (Err(e), Ok(_)) => s.violation("C09.agree", &format!("builder rejects, parser accepts:{}", err_name(e)), cand_case(raw), format!("build() fails with {} but from_fen({:?}, true) succeeds", e, rec)),
                },
            }
        } else {
            t.hit("inexpressible");
            if built.is_ok() {
                s.violation("C09.inexpressible", "state no record can express was accepted", cand_case(raw), format!("build() accepted a state that no Shredder-FEN record expresses: {:?}", raw_json(raw)));
            }
        }
        // error attribution when exactly one aspect is wrong on its own
        if let Err(e) = built {
            let (p, r, ep, h, f) = wrong_aspects(raw);
            let flags = [Some(p), r, ep, Some(h), Some(f)];
            if flags.iter().all(|x| x.is_some()) && flags.iter().filter(|x| **x == Some(true)).count() == 1 {
                let idx = flags.iter().position(|x| *x == Some(true)).unwrap();
                let want = ["InvalidBoard", "InvalidCastlingRights", "InvalidEnPassant", "InvalidHalfMoveClock", "InvalidFullmoveNumber"][idx];
                // "otherwise valid": with the wrong aspect neutralised the library accepts the state
                let mut fixed = raw.clone();
                match idx {
                    0 => {}
                    1 => fixed.rights = [[None; 2]; 2],
                    2 => fixed.ep = None,
                    3 => fixed.hm = 0,
                    _ => fixed.fm = 1,
                }
                let otherwise_valid = if idx == 0 {
                    raw.rights.iter().flatten().all(|x| x.is_none()) && raw.ep.is_none()
                } else {
                    matches!(build(&fixed), Ok(Ok(_)))
                };
                if otherwise_valid {
                    t.hit("attribution-checked");
                    if err_name(e) != want {
                        s.violation("C09.attribution", &format!("{} reported as {}", want, err_name(e)), cand_case(raw), format!("only the {} aspect is wrong but build() reports {}", want, err_name(e)));
                    }
                }
            }
        }
    }
}
impl Monitor for C09 {
    fn state(&self, v: &View, t: &mut Tally, s: &Sink) {
        // accepted boards reached by play: to a builder and back
        t.validated += 1;
        t.transitions += 1;
        let bb = BoardBuilder::from_board(v.board);
        if pos_of_builder(&bb) != *v.pos {
            s.violation("C09.roundtrip", "from_board does not describe the board", v.case(), format!("BoardBuilder::from_board gives {:?} for {}", raw_json(&pos_of_builder(&bb)), shredder(v.board)));
        }
        match guarded(|| bb.build()) {
            Ok(Ok(again)) => {
                if &again != v.board {
                    s.violation("C09.roundtrip", "from_board(..).build() differs", v.case(), format!("from_board(b).build() != b for {}", shredder(v.board)));
                }
            }
            Ok(Err(e)) => s.violation("C09.roundtrip", &format!("from_board(..).build() rejected:{}", err_name(&e)), v.case(), format!("from_board(b).build() fails with {} for {}", e, shredder(v.board))),
            Err(e) => s.violation("C09.panic", "from_board(..).build() panicked", v.case(), e),
        }
    }
}

// ------------------------------------------------------------------------------------------------
pub struct C10 {
    /// position (without clocks) -> first hash seen and the history that produced it
    shards: Vec<Mutex<HashMap<Key, (u64, RootDesc, Vec<Act>)>>>,
}
impl C10 {
    pub fn new() -> C10 {
        C10 { shards: (0..256).map(|_| Mutex::new(HashMap::new())).collect() }
    }
    fn with_clocks(p: &Pos, hm: u8, fm: u16) -> Pos {
        let mut q = p.clone();
        q.hm = hm;
        q.fm = fm;
        q
    }
}
impl Monitor for C10 {
    fn state(&self, v: &View, t: &mut Tally, s: &Sink) {
        t.validated += 1;
        let h = v.board.hash();
        // (a) every arrival at the same (placement, side, rights, ep) has the same hash. The map is
        // kept for the explicit-state universes (transpositions, null-move detours, other clocks,
        // other roots); in the constructed universes route (b) below makes the same comparison
        // against a freshly built board of the same position.
        if !matches!(v.root, RootDesc::Raw(_)) {
            let pk = v.key.position_only();
            let shard = &self.shards[(pk.0[0] ^ pk.0[1] ^ pk.0[2] ^ pk.0[3] ^ pk.0[4]) as usize % 256];
            let mut g = shard.lock().unwrap();
            match g.get(&pk) {
                Some((h0, r0, p0)) => {
                    t.hit("position-seen-again");
                    if *h0 != h {
                        s.violation("C10.pure", "same position, different hash", json!({"kind": "merge", "a": case_json(r0, p0), "b": v.case()}), format!("two routes to {} (clocks aside) give hashes {:#x} and {:#x}", shredder(v.board), h0, h));
                    }
                }
                None => {
                    g.insert(pk, (h, v.root.clone(), v.path.to_vec()));
                }
            }
        }
        // (b) text route, builder route, other clocks
        let (parsed, built) = super::core::fresh_boards(v.board);
        for (how, f) in [("parsed from text", parsed), ("built by builder", built)] {
            match f {
                Some(f) => {
                    if f.hash() != h {
                        s.violation("C10.route", &format!("{}:{}", how, last_kind(v)), v.case(), format!("hash {:#x} after this history, {:#x} when {} ({})", h, f.hash(), how, shredder(v.board)));
                    }
                }
                None => t.hit("fresh-unavailable"),
            }
        }
        for (hm, fm) in [(0u8, 1u16), (100, 65535)] {
            t.transitions += 1;
            if let Ok(Ok(f)) = build(&C10::with_clocks(v.pos, hm, fm)) {
                if f.hash() != h {
                    s.violation("C10.clocks", "hash depends on clocks", v.case(), format!("hash {:#x} vs {:#x} for the same position with clocks {} {}", h, f.hash(), hm, fm));
                }
            }
        }
        // (c) hash without en passant
        let mut noep = v.pos.clone();
        noep.ep = None;
        t.transitions += 1;
        match build(&noep) {
            Ok(Ok(f)) => {
                if v.board.hash_without_ep() != f.hash() {
                    s.violation("C10.noep", if v.pos.ep.is_some() { "with ep" } else { "without ep" }, v.case(), format!("hash_without_ep() = {:#x}, hash of the position with ep cleared = {:#x} ({})", v.board.hash_without_ep(), f.hash(), shredder(v.board)));
                }
                if v.pos.ep.is_some() {
                    t.hit("ep-present");
                }
            }
            _ => t.hit("noep-variant-rejected"),
        }
    }
    fn merge(&self, a: &Board, ca: &dyn Fn() -> Value, b: &Board, cb: &dyn Fn() -> Value, t: &mut Tally, s: &Sink) {
        t.validated += 1;
        if a.hash() != b.hash() {
            s.violation("C10.pure", "same position, different hash", merge_case(ca, cb), format!("two histories reach {} with hashes {:#x} and {:#x}", shredder(a), a.hash(), b.hash()));
        }
    }
}
fn last_kind(v: &View) -> &'static str {
    match v.path.last() {
        None => "root",
        Some(Act::Null) => "after-null",
        Some(Act::Move(m)) => {
            // the parent is not available here; classify by what is visible
            if m.promo.is_some() {
                "after-promotion"
            } else {
                "after-move"
            }
        }
    }
}

// ------------------------------------------------------------------------------------------------
pub struct C12;
fn status_guarded(b: &Board) -> Result<refmodel::Status, String> {
    guarded(|| b.status()).map(status_of)
}
impl Monitor for C12 {
    fn state(&self, v: &View, t: &mut Tally, s: &Sink) {
        // coverage bookkeeping: states whose ONLY legal moves are of one special kind (a status
        // shortcut that forgets one generator shows up exactly there)
        if !v.ref_moves.is_empty() {
            let pinned = v.pos.pinned();
            if v.ref_moves.iter().all(|m| v.pos.is_castle(*m)) {
                t.hit("only-legal-moves: castling");
            } else if v.ref_moves.iter().all(|m| v.pos.is_ep_capture(*m)) {
                t.hit("only-legal-moves: en passant");
            } else if v.ref_moves.iter().all(|m| m.promo.is_some()) {
                t.hit("only-legal-moves: promotions");
            } else if v.ref_moves.iter().all(|m| pinned.contains(&m.from)) {
                t.hit("only-legal-moves: pinned pieces");
            } else if v.ref_moves.iter().all(|m| matches!(v.pos.sq[m.from as usize], Some((Kind::K, _)))) {
                t.hit("only-legal-moves: king");
            } else if v.ref_moves.iter().all(|m| matches!(v.pos.sq[m.from as usize], Some((Kind::P, _)))) {
                t.hit("only-legal-moves: pawns");
            } else if v.ref_moves.iter().all(|m| matches!(v.pos.sq[m.from as usize], Some((Kind::N, _)))) {
                t.hit("only-legal-moves: knights");
            }
        }
        let mut variants: Vec<(String, Board, Pos)> = vec![("as reached".into(), v.board.clone(), v.pos.clone())];
        for hm in [0u8, 99, 100] {
            if hm == v.pos.hm {
                continue;
            }
            let mut c = v.board.clone();
            if guarded(|| c.set_halfmove_clock(hm)).is_ok() {
                let mut p = v.pos.clone();
                p.hm = hm;
                variants.push((format!("set_halfmove_clock({})", hm), c, p.clone()));
                if let Ok(Ok(bb)) = build(&p) {
                    variants.push((format!("builder with halfmove_clock {}", hm), bb, p));
                }
            }
        }
        for (how, bd, p) in variants {
            t.validated += 1;
            t.transitions += 1;
            let want = p.status();
            t.hit(match (want, p.hm >= 100) {
                (refmodel::Status::Won, false) => "won",
                (refmodel::Status::Won, true) => "won-at-100",
                (refmodel::Status::Drawn, false) => "stalemate",
                (refmodel::Status::Drawn, true) => "drawn-at-100",
                (refmodel::Status::Ongoing, _) => "ongoing",
            });
            match status_guarded(&bd) {
                Ok(got) => {
                    if got != want {
                        let mut c = v.case();
                        c["variant"] = json!(how);
                        s.violation("C12.status", &format!("{:?} reported as {:?}:hm>=100={}", want, got, p.hm >= 100), c, format!("status() = {:?}, rules say {:?} for {} ({})", got, want, to_fen(&p, true), how));
                    }
                }
                Err(e) => s.violation("C12.panic", "status panicked", v.case(), e),
            }
        }
    }
}

// ------------------------------------------------------------------------------------------------
pub struct C13;
impl Monitor for C13 {
    fn state(&self, v: &View, t: &mut Tally, s: &Sink) {
        // cluster of variants of this position, all obtained from the library itself
        let mut members: Vec<(String, Board)> = Vec::new();
        let base = v.pos;
        let mut ep_options: Vec<Option<u8>> = vec![None];
        for f in 0..8u8 {
            ep_options.push(Some(refmodel::sq(f, base.stm.rel_rank(5))));
        }
        let mut right_sets: Vec<[[Option<u8>; 2]; 2]> = vec![base.rights];
        for c in 0..2 {
            for w in 0..2 {
                if base.rights[c][w].is_some() {
                    let mut r = base.rights;
                    r[c][w] = None;
                    right_sets.push(r);
                }
            }
        }
        for ep in &ep_options {
            for (hm, fm) in [(0u8, 1u16), (57, 40)] {
                for (ri, r) in right_sets.iter().enumerate() {
                    let mut p = base.clone();
                    p.ep = *ep;
                    p.hm = hm;
                    p.fm = fm;
                    p.rights = *r;
                    if let Ok(Ok(bd)) = build(&p) {
                        members.push((format!("ep={:?} clocks=({},{}) rights#{}", ep.map(refmodel::sq_name), hm, fm, ri), bd));
                    }
                }
            }
        }
        members.push(("as reached".into(), v.board.clone()));
        // different-placement / different-side witnesses
        for m in v.ref_moves.iter().take(3) {
            if v.lib_moves.contains(m) {
                if let Ok(c) = apply(v.board, Act::Move(*m)) {
                    members.push((format!("after {}", m.text()), c));
                }
            }
        }
        if let Ok(Some(n)) = guarded(|| v.board.null_move()) {
            members.push(("after null move".into(), n));
        }
        let poss: Vec<Pos> = members.iter().map(|(_, bd)| alpha(bd)).collect();
        let eff: Vec<Option<u8>> = poss.iter().map(|p| p.effective_ep()).collect();
        let n = members.len();
        let mut ans = vec![false; n * n];
        for i in 0..n {
            for j in 0..n {
                t.validated += 1;
                t.transitions += 1;
                let want = poss[i].sq == poss[j].sq && poss[i].stm == poss[j].stm && poss[i].rights == poss[j].rights && eff[i] == eff[j];
                let got = match guarded(|| members[i].1.same_position(&members[j].1)) {
                    Ok(g) => g,
                    Err(e) => {
                        s.violation("C13.panic", "same_position panicked", v.case(), e);
                        return;
                    }
                };
                ans[i * n + j] = got;
                if got != want {
                    let ep_only = poss[i].sq == poss[j].sq && poss[i].stm == poss[j].stm && poss[i].rights == poss[j].rights;
                    let kind_on_capture_sq = |p: &Pos| -> String {
                        // what stands where a capturing pawn would stand
                        match p.ep {
                            None => "-".into(),
                            Some(tq) => {
                                let mut out = String::new();
                                for df in [-1, 1] {
                                    if let Some(q) = refmodel::step(tq, df, -p.stm.dir()) {
                                        if let Some((k, c)) = p.sq[q as usize] {
                                            if c == p.stm {
                                                out.push(k.upper());
                                            }
                                        }
                                    }
                                }
                                out
                            }
                        }
                    };
                    let sig = format!("want={} got={} ep-only-difference={} pieces-on-capture-squares={}/{}", want, got, ep_only, kind_on_capture_sq(&poss[i]), kind_on_capture_sq(&poss[j]));
                    let case = json!({"kind": "pair", "a": to_fen(&poss[i], true), "b": to_fen(&poss[j], true)});
                    s.violation("C13.identity", &sig, case, format!("same_position({:?}, {:?}) = {}, FIDE identity says {} (effective ep {:?} / {:?})", to_fen(&poss[i], true), to_fen(&poss[j], true), got, want, eff[i], eff[j]));
                }
                t.hit(if want { "same" } else { "different" });
            }
        }
        // reflexive, symmetric, transitive on the real answers
        for i in 0..n {
            if !ans[i * n + i] {
                s.violation("C13.relation", "not reflexive", json!({"kind": "pair", "a": to_fen(&poss[i], true), "b": to_fen(&poss[i], true)}), "same_position(x, x) is false".into());
            }
            for j in 0..n {
                if ans[i * n + j] != ans[j * n + i] {
                    s.violation("C13.relation", "not symmetric", json!({"kind": "pair", "a": to_fen(&poss[i], true), "b": to_fen(&poss[j], true)}), "same_position(a, b) != same_position(b, a)".into());
                }
                if ans[i * n + j] {
                    for k in 0..n {
                        if ans[j * n + k] && !ans[i * n + k] {
                            s.violation("C13.relation", "not transitive", json!({"kind": "triple", "a": to_fen(&poss[i], true), "b": to_fen(&poss[j], true), "c": to_fen(&poss[k], true)}), "a~b and b~c but not a~c".into());
                        }
                    }
                }
            }
        }
    }
}
pub fn c13_pair(a: &str, b: &str) -> Result<(), String> {
    let ba = guarded(|| Board::from_fen(a, true)).map_err(|e| format!("MACHINERY: {}", e))?.map_err(|e| format!("MACHINERY: {} rejected: {}", a, e))?;
    let bb = guarded(|| Board::from_fen(b, true)).map_err(|e| format!("MACHINERY: {}", e))?.map_err(|e| format!("MACHINERY: {} rejected: {}", b, e))?;
    let (pa, pb) = (alpha(&ba), alpha(&bb));
    let want = pa.same_position(&pb);
    let got = guarded(|| ba.same_position(&bb))?;
    if got != want {
        return Err(format!("same_position({:?}, {:?}) = {}, FIDE identity says {}", a, b, got, want));
    }
    let back = guarded(|| bb.same_position(&ba))?;
    if back != got {
        return Err("not symmetric".into());
    }
    Ok(())
}

// ------------------------------------------------------------------------------------------------
struct Both<'a>(&'a dyn Monitor, &'a dyn CandMonitor);

fn monitors(prop: &str) -> (Box<dyn Monitor>, Box<dyn CandMonitor>) {
    match prop {
        "C06" => (Box::new(C06 { acceptance: true }), Box::new(C06 { acceptance: true })),
        "C07" => (Box::new(C07), Box::new(NoCand)),
        "C09" => (Box::new(C09), Box::new(C09)),
        "C10" => (Box::new(C10::new()), Box::new(NoCand)),
        "C12" => (Box::new(C12), Box::new(NoCand)),
        "C13" => (Box::new(C13), Box::new(NoCand)),
        _ => unreachable!(),
    }
}

/// a monitor that does nothing per state (for universes where only the candidate monitor applies)
struct Idle;
impl Monitor for Idle {}

pub fn run(run: &mut Run) -> Result<(), String> {
    let q = run.quick();
    let prop = run.prop.clone();
    let (mon, cand) = monitors(&prop);
    let _ = Both(mon.as_ref(), cand.as_ref());
    let sub8: Vec<u8> = vec![63, 60, 56, 36, 35, 31, 9, 0];
    run.assume("the reference model is the arbiter of the rules; validated against published perft values before every run");
    run.assume("bounds: see universes[].bounds");
    match prop.as_str() {
        "C06" | "C09" => {
            if run.config.ends_with("-rel") {
                // release profile: boards handed out by play and null moves around the clock limits
                let mut plan = Plan::empty();
                plan.mid = Some(b(1, 1));
                plan.clock = Some(b(if q { 2 } else { 3 }, if q { 1 } else { 2 }));
                plan.start = Some(b(2, 1));
                run.tag = " [soundness only]".into();
                run.rule = "release profile: every board handed out by play / null moves from the clock roots (half-move clock 98-100 x full-move number 65534/65535), R-MID and a shallow start tree must satisfy the C06 clause list".into();
                run_plan(run, &plan, &C06 { acceptance: false }, &NoCand);
                return Ok(());
            }
            // reachability part: state monitor (acceptance / round trip)
            let mut plan = Plan::empty();
            if q {
                plan.start = Some(b(3, 0));
                plan.r960 = Some(b(1, 0));
                plan.dfrc = Some((0..960, 16, b(1, 0)));
                plan.lines = Some(b(2, 0));
                // no null moves in these walks: every root is reached by legal play from a start
                plan.walk = Some((240, 40, 2, 0, b(1, 0)));
                plan.march = Some((240, 80, 2, b(0, 0)));
            } else {
                plan.start = Some(b(5, 0));
                plan.r960 = Some(b(3, 0));
                plan.dfrc = Some((0..960, 1, b(1, 0)));
                plan.lines = Some(b(3, 0));
                plan.walk = Some((960, 80, 1, 0, b(1, 0)));
                plan.march = Some((960, 100, 1, b(1, 0)));
            }
            run_plan(run, &plan, mon.as_ref(), &NoCand);
            if prop == "C06" {
                // boards handed out by play from roots that are accepted but not provably reachable
                // from a start position: soundness (and the clock setters) only
                let mut plan = Plan::empty();
                plan.mid = Some(b(if q { 2 } else { 3 }, 1));
                plan.clock = Some(b(2, 1));
                run.tag = " [soundness only]".into();
                run_plan(run, &plan, &C06 { acceptance: false }, &NoCand);
                run.tag = String::new();
            }
            // constructed part: candidate monitor only
            let mut plan = Plan::empty();
            let corpus = corpus_positions(q, &run.sink);
            if q {
                plan.raws.push((Box::new(LongFen), b(0, 0)));
                plan.raws.push((Box::new(ThreeMen { bk: None }), b(0, 0)));
                plan.raws.push((Box::new(Castle { extra: 1, ek_rank2: false }), b(0, 0)));
                plan.raws.push((Box::new(EpUniverse::reduced()), b(0, 0)));
                plan.raws.push((Box::new(Checks { n: 2 }), b(0, 0)));
                // boards with rooks on both sides of both kings, all 9^4 right assignments
                let rc: Vec<Pos> = ["r3k2r/8/8/8/8/8/8/R3K2R w - - 0 1", "1r2k1r1/8/8/8/8/8/8/1R2K1R1 b - - 0 1", "rr2k1rr/8/8/8/8/8/8/RR2K1RR w - - 0 1", KIWIPETE, "r3k2r/8/8/8/8/8/4K3/R6R w - - 0 1"]
                    .iter()
                    .filter_map(|f| refmodel::text::decode_fen(&f.replace(" KQkq ", " - "), refmodel::text::Notation::Either).ok())
                    .map(|mut p| {
                        p.rights = [[None; 2]; 2];
                        p
                    })
                    .collect();
                plan.raws.push((Box::new(RightsProduct { corpus: rc }), b(0, 0)));
                plan.raws.push((Box::new(Material), b(0, 0)));
                plan.raws.push((Box::new(Edit { corpus, two_edits_for_first: 0 }), b(0, 0)));
            } else {
                plan.raws.push((Box::new(Material), b(0, 0)));
                let rc: Vec<Pos> = corpus.iter().step_by(9).cloned().collect();
                plan.raws.push((Box::new(RightsProduct { corpus: rc }), b(0, 0)));
                plan.raws.push((Box::new(LongFen), b(0, 0)));
                plan.raws.push((Box::new(ThreeMen { bk: None }), b(0, 0)));
                plan.raws.push((Box::new(FourMen { kings: None, with_flags: false }), b(0, 0)));
                plan.raws.push((Box::new(Castle { extra: 2, ek_rank2: false }), b(0, 0)));
                plan.raws.push((Box::new(EpUniverse::full()), b(0, 0)));
                plan.raws.push((Box::new(Checks { n: 3 }), b(0, 0)));
                plan.raws.push((Box::new(Edit { corpus, two_edits_for_first: 12 }), b(0, 0)));
            }
            run.rule = if prop == "C06" {
                "soundness: every candidate state through BoardBuilder::build and (when a record can say it) Board::from_fen / str::parse; whatever is accepted must satisfy the C06 clause list. acceptance: every state reached by legal play from (double) Chess960 starts must be accepted as text and through the builder. non-trivial = in check / pin / right / ep present".into()
            } else {
                "every candidate builder state: build() vs from_fen(record) agreement when expressible, rejection when not, from_board round trip, error attribution when exactly one aspect is wrong on its own".into()
            };
            run_plan(run, &plan, &Idle, cand.as_ref());
        }
        "C07" | "C10" | "C12" => {
            let mut plan = Plan::empty();
            if q {
                plan.start = Some(b(if prop == "C12" { 3 } else { 4 }, 1));
                plan.mid = Some(b(2, 1));
                plan.r960 = Some(b(1, 1));
                plan.clock = Some(b(2, 1));
                plan.dfrc = Some((0..960, 16, b(0, 0)));
                plan.lines = Some(b(2, 1));
                plan.walk = Some((240, 40, 2, 7, b(1, 1)));
                if prop == "C07" {
                    plan.march = Some((120, 80, 2, b(0, 0)));
                }
                plan.raws.push((Box::new(Material), b(0, 0)));
                if prop == "C07" {
                    plan.raws.push((Box::new(LongFen), b(1, 0)));
                }
                if prop == "C10" || prop == "C07" {
                    plan.raws.push((Box::new(CastlePlay { visitors: vec![Kind::R] }), b(3, 0)));
                    plan.raws.push((Box::new(PromoUniverse { sliders: vec![Kind::R] }), b(1, 0)));
                    plan.raws.push((Box::new(EpUniverse::before_push(q)), b(1, 0)));
                    plan.raws.push((Box::new(TwoLines { enemy_kings: vec![35] }), b(if prop == "C10" { 1 } else { 0 }, 0)));
                    plan.raws.push((Box::new(EpUniverse::own_sliders()), b(1, 0)));
                }
                if prop == "C12" {
                    plan.raws.push((Box::new(EpStale), b(0, 0)));
                    plan.raws.push((Box::new(CastleBox { max_items: 4 }), b(0, 0)));
                    plan.raws.push((Box::new(FourMen { kings: Some(cornered_king_placements()), with_flags: false }), b(0, 0)));
                    plan.raws.push((Box::new(DoubleCheck { kings: vec![4, 0], own_kinds: vec![Kind::P, Kind::N] }), b(0, 0)));
                }
                plan.raws.push((Box::new(ThreeMen { bk: if prop == "C07" { None } else { Some(sub8.clone()) } }), b(if prop == "C10" { 1 } else { 0 }, 1)));
                plan.raws.push((Box::new(Castle { extra: 1, ek_rank2: false }), b(if prop == "C10" { 1 } else { 0 }, 1)));
                plan.raws.push((Box::new(EpUniverse::reduced()), b(if prop == "C10" { 1 } else { 0 }, 1)));
                if prop == "C12" {
                    plan.raws.push((Box::new(Checks { n: 2 }), b(0, 0)));
                    plan.raws.push((Box::new(EpCheck { second: vec![Kind::Q], files: (0..8).collect() }), b(0, 0)));
                    plan.raws.push((Box::new(Caged { inner: Box::new(CheckPin { kings: vec![15, 55] }), variants: 3, mover: true }), b(0, 0)));
                    plan.raws.push((Box::new(Caged { inner: Box::new(AddCastle { inner: Box::new(DoubleCheck { kings: vec![5, 59], own_kinds: vec![] }) }), variants: 3, mover: true }), b(0, 0)));
                    plan.raws.push((Box::new(Caged { inner: Box::new(PinUniverse { kings: vec![15, 55, 0, 63, 27], far_side: false }), variants: 3, mover: true }), b(0, 0)));
                }
            } else {
                if prop == "C07" {
                    plan.raws.push((Box::new(LongFen), b(2, 1)));
                }
                if prop == "C10" || prop == "C07" {
                    plan.raws.push((Box::new(CastlePlay { visitors: vec![Kind::R, Kind::Q, Kind::N] }), b(3, 1)));
                }
                if prop == "C12" {
                    plan.raws.push((Box::new(Caged { inner: Box::new(AddCastle { inner: Box::new(DoubleCheck { kings: vec![1, 2, 3, 4, 5, 6, 57, 58, 59, 60, 61, 62], own_kinds: vec![] }) }), variants: 3, mover: true }), b(0, 0)));
                    plan.raws.push((Box::new(Caged { inner: Box::new(AddCastle { inner: Box::new(Checks { n: 1 }) }), variants: 3, mover: true }), b(0, 0)));
                    plan.raws.push((Box::new(Caged { inner: Box::new(CheckPin { kings: vec![15, 55, 12, 52, 20, 44, 0, 63, 27] }), variants: 3, mover: true }), b(0, 0)));
                    plan.raws.push((Box::new(Caged { inner: Box::new(PinUniverse { kings: vec![15, 55, 12, 52, 0, 63, 27], far_side: false }), variants: 3, mover: true }), b(0, 0)));
                    plan.raws.push((Box::new(EpCheck { second: vec![Kind::B, Kind::R, Kind::Q], files: (0..8).collect() }), b(0, 0)));
                }
                plan.start = Some(b(5, 1));
                plan.mid = Some(b(3, 2));
                plan.r960 = Some(b(2, 1));
                plan.clock = Some(b(3, 2));
                plan.dfrc = Some((0..960, 1, b(0, 0)));
                plan.lines = Some(b(3, 2));
                plan.walk = Some((960, 60, 1, 7, b(1, 1)));
                if prop == "C07" {
                    plan.march = Some((960, 100, 1, b(0, 0)));
                }
                plan.raws.push((Box::new(Material), b(1, 0)));
                plan.raws.push((Box::new(PromoUniverse { sliders: vec![Kind::R, Kind::B, Kind::Q] }), b(1, 0)));
                plan.raws.push((Box::new(EpStale), b(0, 0)));
                plan.raws.push((Box::new(EpFile), b(0, 0)));
                plan.raws.push((Box::new(EpUniverse::before_push(q)), b(1, 0)));
                plan.raws.push((Box::new(CastleBox { max_items: 4 }), b(if prop == "C12" { 1 } else { 0 }, 0)));
                plan.raws.push((Box::new(TwoLines { enemy_kings: vec![35, 60, 63] }), b(1, 0)));
                plan.raws.push((Box::new(DoubleCheck { kings: vec![4, 27, 0, 60], own_kinds: NONKING.to_vec() }), b(0, 0)));
                plan.raws.push((Box::new(ThreeMen { bk: None }), b(1, 1)));
                plan.raws.push((Box::new(FourMen { kings: if prop == "C10" { Some(six_king_placements()) } else if prop == "C12" { Some(king_pairs_stride(2)) } else { None }, with_flags: false }), b(0, 0)));
                plan.raws.push((Box::new(Castle { extra: 2, ek_rank2: false }), b(if prop == "C10" { 1 } else { 0 }, 1)));
                plan.raws.push((Box::new(EpUniverse::full()), b(1, 1)));
                plan.raws.push((Box::new(Checks { n: 3 }), b(0, 0)));
            }
            run.rule = match prop.as_str() {
                "C07" => "every visited state: Display (both notations) equals the reference canonical record, parse back (from_fen / str::parse) gives an equal board, re-formatting is character-identical; merged histories: boards equal iff texts equal".into(),
                "C10" => "every visited state: hash equal for every arrival at the same (placement, side, rights, ep) in the whole run (transpositions, null-move detours, different clocks, different roots), equal to the hash of the parsed / built board and of the same position with other clocks; hash_without_ep equals the hash with ep cleared".into(),
                _ => "every visited state and its variants with half-move clock 0 / 99 / 100 (setter and builder): status() vs the C12 definition".into(),
            };
            if prop == "C07" {
                run.assume("'equal boards <=> equal Shredder texts' is decided as: Display text == reference record of alpha(board) on every visited board (the reference writer is injective on exact keys) plus board equality on every merge of histories with equal keys");
            }
            run_plan(run, &plan, mon.as_ref(), &NoCand);
        }
        "C13" => {
            let mut plan = Plan::empty();
            if q {
                plan.start = Some(b(2, 1));
                plan.mid = Some(b(1, 1));
                plan.lines = Some(b(1, 1));
                plan.walk = Some((60, 40, 4, 7, b(0, 0)));
                plan.raws.push((Box::new(EpFile), b(0, 0)));
                plan.raws.push((Box::new(ThreeMen { bk: Some(vec![63, 36]) }), b(0, 0)));
                plan.raws.push((Box::new(EpUniverse::reduced()), b(0, 0)));
                plan.raws.push((Box::new(EpCheck { second: vec![Kind::Q], files: (0..8).collect() }), b(0, 0)));
            } else {
                plan.raws.push((Box::new(EpCheck { second: vec![Kind::B, Kind::R, Kind::Q], files: (0..8).collect() }), b(0, 0)));
                plan.start = Some(b(3, 1));
                plan.mid = Some(b(2, 1));
                plan.r960 = Some(b(1, 0));
                plan.lines = Some(b(2, 1));
                plan.clock = Some(b(1, 0));
                plan.walk = Some((480, 60, 2, 7, b(0, 0)));
                plan.raws.push((Box::new(EpFile), b(0, 0)));
                plan.raws.push((Box::new(EpStale), b(0, 0)));
                plan.raws.push((Box::new(ThreeMen { bk: None }), b(0, 0)));
                plan.raws.push((Box::new(FourMen { kings: Some(six_king_placements()), with_flags: true }), b(0, 0)));
                plan.raws.push((Box::new(EpUniverse::full()), b(0, 0)));
                plan.raws.push((Box::new(EpExposure), b(0, 0)));
                plan.raws.push((Box::new(EpUniverse::own_sliders()), b(1, 0)));
                plan.raws.push((Box::new(Castle { extra: 1, ek_rank2: false }), b(0, 0)));
            }
            run.rule = "for every visited state a cluster of variants built through the library (en-passant file none / each accepted file, two clock pairs, each single right removed, three successors, null-move successor): same_position on all ordered pairs vs FIDE identity by the reference model, plus reflexivity / symmetry / transitivity of the observed answers".into();
            run_plan(run, &plan, mon.as_ref(), &NoCand);
        }
        _ => unreachable!(),
    }
    Ok(())
}

pub fn replay(prop: &str, body: &Value) -> Result<(), String> {
    let case = &body["case"];
    let monitor = body["monitor"].as_str().unwrap_or("");
    match case["kind"].as_str().unwrap_or("") {
        "start" if prop == "C06" => {
            let rd = RootDesc::from_json(&case["root"]).ok_or("MACHINERY: bad root")?;
            match rd.board() {
                Ok(_) => Ok(()),
                Err(e) => Err(format!("[C06.start] {}", e)),
            }
        }
        "text" if prop == "C06" => {
            let text = case["text"].as_str().ok_or("MACHINERY: no text")?;
            let mode = match case["mode"].as_str().unwrap_or("") {
                "Board::from_fen(shredder)" => Some(true),
                "Board::from_fen(standard)" => Some(false),
                _ => None,
            };
            if let Ok(Ok(bd)) = parse_guarded(text, mode) {
                if let Err(clause) = alpha(&bd).sound() {
                    return Err(format!("[C06.sound] {:?} is accepted but violates: {}", text, clause));
                }
            }
            Ok(())
        }
        "pair" | "triple" if prop == "C13" => {
            let a = case["a"].as_str().ok_or("MACHINERY: no a")?;
            let bb = case["b"].as_str().ok_or("MACHINERY: no b")?;
            if monitor == "C13.relation" {
                if let Some(c) = case.get("c").and_then(|c| c.as_str()) {
                    let f = |x: &str| guarded(|| Board::from_fen(x, true)).ok().and_then(|r| r.ok());
                    if let (Some(x), Some(y), Some(z)) = (f(a), f(bb), f(c)) {
                        if x.same_position(&y) && y.same_position(&z) && !x.same_position(&z) {
                            return Err("[C13.relation] a~b and b~c but not a~c".into());
                        }
                    }
                    return Ok(());
                }
            }
            c13_pair(a, bb).map_err(|e| if e.starts_with("MACHINERY") { e } else { format!("[{}] {}", monitor, e) })
        }
        _ => {
            let (mon, cand) = monitors(prop);
            replay_board_case(prop, mon.as_ref(), cand.as_ref(), body)
        }
    }
}
