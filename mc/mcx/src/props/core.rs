//! C01 move generation, C02 successor, C03 checkers/pins, C04 is_legal, C14 null move,
//! C15 checked play, C16 masked generation / abort contract.

use super::*;
use crate::report::{Run, Sink, Tally};
use cozy_chess::*;
use refmodel::{Kind, Mv, Pos};
use serde_json::{json, Value};

fn kind_letter(p: &Pos, m: Mv) -> String {
    let k = match p.sq[m.from as usize] {
        Some((k, _)) => k.upper().to_string(),
        None => "-".into(),
    };
    let tag = if p.is_castle(m) {
        "castle"
    } else if p.is_ep_capture(m) {
        "ep"
    } else if m.promo.is_some() {
        "promo"
    } else if p.is_capture(m) {
        "capture"
    } else {
        "quiet"
    };
    format!("{}-{}", k, tag)
}

fn check_class(p: &Pos) -> &'static str {
    match p.checkers().len() {
        0 => "nocheck",
        1 => "check",
        _ => "multicheck",
    }
}

// ------------------------------------------------------------------------------------------------
pub struct C01;
impl Monitor for C01 {
    fn state(&self, v: &View, t: &mut Tally, s: &Sink) {
        t.validated += 1;
        if let Some(p) = v.gen_panic {
            s.violation("C01.panic", "generate_moves panicked", v.case(), format!("generate_moves panicked: {} on {}", p, shredder(v.board)));
            return;
        }
        let mut lib: Vec<Mv> = v.lib_moves.to_vec();
        lib.sort_unstable();
        t.hit(check_class(v.pos));
        if lib.as_slice() != v.ref_moves {
            // classify: duplicates, extra, missing
            for w in lib.windows(2) {
                if w[0] == w[1] {
                    s.violation(
                        "C01.moveset",
                        &format!("duplicate:{}:{}", kind_letter(v.pos, w[0]), check_class(v.pos)),
                        v.case(),
                        format!("move {} delivered twice on {}", w[0].text(), shredder(v.board)),
                    );
                }
            }
            for m in &lib {
                if !v.ref_moves.contains(m) {
                    s.violation(
                        "C01.moveset",
                        &format!("extra:{}:{}", kind_letter(v.pos, *m), check_class(v.pos)),
                        v.case(),
                        format!("illegal move {} generated on {}", m.text(), shredder(v.board)),
                    );
                }
            }
            for m in v.ref_moves {
                if !lib.contains(m) {
                    s.violation(
                        "C01.moveset",
                        &format!("missing:{}:{}", kind_letter(v.pos, *m), check_class(v.pos)),
                        v.case(),
                        format!("legal move {} not generated on {}", m.text(), shredder(v.board)),
                    );
                }
            }
        }
        for pm in v.batches {
            let from = sq_of(pm.from);
            if v.pos.sq[from as usize] != Some((kind_of(pm.piece), v.pos.stm)) {
                s.violation(
                    "C01.batch",
                    "batch piece/from mismatch",
                    v.case(),
                    format!("batch {:?} from {} but the board has {:?} there ({})", pm.piece, pm.from, v.pos.sq[from as usize], shredder(v.board)),
                );
            }
        }
        t.hit_n("moves-compared", v.ref_moves.len() as u64);
    }
}

// ------------------------------------------------------------------------------------------------
pub struct C02;
fn diff_pos(a: &Pos, want: &Pos) -> Option<(&'static str, String)> {
    if a.sq != want.sq {
        let s = (0..64u8).find(|&s| a.sq[s as usize] != want.sq[s as usize]).unwrap();
        return Some(("placement", format!("square {}: got {:?}, rules say {:?}", refmodel::sq_name(s), a.sq[s as usize], want.sq[s as usize])));
    }
    if a.stm != want.stm {
        return Some(("side", format!("side to move {:?} vs {:?}", a.stm, want.stm)));
    }
    if a.rights != want.rights {
        return Some(("rights", format!("castling rights {:?} vs {:?}", a.rights, want.rights)));
    }
    if a.ep != want.ep {
        return Some(("ep", format!("en passant {:?} vs {:?}", a.ep, want.ep)));
    }
    if a.hm != want.hm {
        return Some(("halfmove", format!("half-move clock {} vs {}", a.hm, want.hm)));
    }
    if a.fm != want.fm {
        return Some(("fullmove", format!("full-move number {} vs {}", a.fm, want.fm)));
    }
    None
}
impl Monitor for C02 {
    fn wants_frontier_edges(&self) -> bool {
        true
    }
    fn edge(&self, v: &View, act: Act, child: &Result<Option<Board>, String>, t: &mut Tally, s: &Sink) {
        let m = match act {
            Act::Move(m) => m,
            Act::Null => return,
        };
        t.validated += 1;
        let kl = kind_letter(v.pos, m);
        let child = match child {
            Ok(Some(c)) => c,
            Ok(None) => return,
            Err(e) => {
                s.violation("C02.panic", &format!("play_unchecked panicked:{}", kl), v.edge_case(act), format!("play_unchecked({}) on {}: {}", m.text(), shredder(v.board), e));
                return;
            }
        };
        let want = v.pos.make(m);
        let got = alpha(child);
        if let Some((field, d)) = diff_pos(&got, &want) {
            s.violation("C02.successor", &format!("{}:{}", field, kl), v.edge_case(act), format!("after {} on {}: {}", m.text(), shredder(v.board), d));
            return;
        }
        t.hit(match kl.split('-').nth(1).unwrap_or("") {
            "castle" => "castle",
            "ep" => "ep",
            "promo" => "promo",
            "capture" => "capture",
            _ => "quiet",
        });
        // play / try_play / play_unchecked agree
        let mv = move_of(m);
        let mut b1 = v.board.clone();
        let r1 = guarded(|| b1.play(mv));
        let mut b2 = v.board.clone();
        let r2 = guarded(|| b2.try_play(mv));
        match (r1, r2) {
            (Ok(()), Ok(Ok(()))) => {
                if &b1 != child || &b2 != child {
                    s.violation("C02.variants", &format!("play variants differ:{}", kl), v.edge_case(act), format!("play/try_play/play_unchecked give different boards for {} on {}", m.text(), shredder(v.board)));
                }
            }
            (a, b2r) => {
                s.violation("C02.variants", &format!("checked play refuses legal move:{}", kl), v.edge_case(act), format!("play -> {:?}, try_play -> {:?} for legal {} on {}", a, b2r.map(|r| r.is_ok()), m.text(), shredder(v.board)));
            }
        }
        // the text of the successor is the reference record of the reference successor
        let txt_s = shredder(child);
        let txt_p = plain_fen(child);
        if txt_s != refmodel::text::to_fen(&want, true) || txt_p != refmodel::text::to_fen(&want, false) {
            s.violation("C02.text", "successor text", v.edge_case(act), format!("successor prints as {:?} / {:?}, expected {:?}", txt_s, txt_p, refmodel::text::to_fen(&want, true)));
        }
    }
}

// ------------------------------------------------------------------------------------------------
pub struct C03;
pub fn fresh_boards(b: &Board) -> (Option<Board>, Option<Board>) {
    let txt = shredder(b);
    let parsed = guarded(|| Board::from_fen(&txt, true)).ok().and_then(|r| r.ok());
    let built = guarded(|| BoardBuilder::from_board(b).build()).ok().and_then(|r| r.ok());
    (parsed, built)
}
impl Monitor for C03 {
    fn state(&self, v: &View, t: &mut Tally, s: &Sink) {
        t.validated += 1;
        let chk = bb_of(&v.pos.checkers());
        let pin = bb_of(&v.pos.pinned());
        if v.board.checkers().0 != chk {
            s.violation("C03.checkers", &format!("checkers:{}", last_act_kind(v)), v.case(), format!("checkers() = {:#x}, definition gives {:#x} on {}", v.board.checkers().0, chk, shredder(v.board)));
        }
        if v.board.pinned().0 != pin {
            s.violation("C03.pinned", &format!("pinned:{}", last_act_kind(v)), v.case(), format!("pinned() = {:#x}, definition gives {:#x} on {}", v.board.pinned().0, pin, shredder(v.board)));
        }
        t.hit(if chk != 0 && pin != 0 {
            "check+pin"
        } else if chk != 0 {
            "check"
        } else if pin != 0 {
            "pin"
        } else {
            "plain"
        });
        let (parsed, built) = fresh_boards(v.board);
        match &parsed {
            Some(p) => {
                if p != v.board {
                    s.violation("C03.fresh", &format!("differs from freshly parsed:{}", last_act_kind(v)), v.case(), format!("board reached by history != board parsed from its own text {}", shredder(v.board)));
                }
            }
            None => t.hit("fresh-parse-unavailable"),
        }
        match &built {
            Some(p) => {
                if p != v.board {
                    s.violation("C03.fresh", &format!("differs from freshly built:{}", last_act_kind(v)), v.case(), format!("board reached by history != BoardBuilder::from_board(..).build() for {}", shredder(v.board)));
                }
            }
            None => t.hit("fresh-build-unavailable"),
        }
    }
    fn merge(&self, a: &Board, ca: &dyn Fn() -> Value, b: &Board, cb: &dyn Fn() -> Value, t: &mut Tally, s: &Sink) {
        t.validated += 1;
        if a != b {
            s.violation("C03.merge", "same position and clocks, unequal boards", merge_case(ca, cb), format!("two histories reach {} but the boards differ (checkers {:#x}/{:#x}, pinned {:#x}/{:#x}, hash {:#x}/{:#x})", shredder(a), a.checkers().0, b.checkers().0, a.pinned().0, b.pinned().0, a.hash(), b.hash()));
        }
    }
}
fn last_act_kind(v: &View) -> &'static str {
    match v.path.last() {
        None => "root",
        Some(Act::Null) => "after-null",
        Some(Act::Move(_)) => "after-move",
    }
}

// ------------------------------------------------------------------------------------------------
pub struct C14;
impl Monitor for C14 {
    fn state(&self, v: &View, t: &mut Tally, s: &Sink) {
        t.validated += 1;
        t.transitions += 1;
        let in_check = v.pos.in_check(v.pos.stm);
        let r = guarded(|| v.board.null_move());
        match r {
            Err(e) => s.violation("C14.panic", "null_move panicked", v.case(), format!("null_move on {}: {}", shredder(v.board), e)),
            Ok(None) => {
                t.hit("refused");
                if !in_check {
                    s.violation("C14.offered", "refused although not in check", v.case(), format!("null_move refused on {} but the mover is not in check", shredder(v.board)));
                }
            }
            Ok(Some(n)) => {
                t.hit("passed");
                if in_check {
                    s.violation("C14.offered", "offered while in check", v.case(), format!("null_move offered on {} although the mover is in check", shredder(v.board)));
                    return;
                }
                let want = v.pos.null();
                let got = alpha(&n);
                if let Some((field, d)) = diff_pos(&got, &want) {
                    s.violation("C14.result", field, v.case(), format!("null move on {}: {}", shredder(v.board), d));
                    return;
                }
                let (parsed, built) = fresh_boards(&n);
                for (name, f) in [("parsed", parsed), ("built", built)] {
                    match f {
                        Some(f) => {
                            if f != n {
                                let what = if f.hash() != n.hash() {
                                    "hash"
                                } else if f.checkers() != n.checkers() {
                                    "checkers"
                                } else if f.pinned() != n.pinned() {
                                    "pinned"
                                } else {
                                    "other"
                                };
                                s.violation("C14.fresh", &format!("{} differs from fresh board", what), v.case(), format!("null move result {} differs from freshly {} board in {}", shredder(&n), name, what));
                            }
                        }
                        None => t.hit("fresh-unavailable"),
                    }
                }
            }
        }
    }
}

// ------------------------------------------------------------------------------------------------
fn move_index(m: &Move) -> usize {
    let p = match m.promotion {
        None => 0,
        Some(Piece::Pawn) => 1,
        Some(Piece::Knight) => 2,
        Some(Piece::Bishop) => 3,
        Some(Piece::Rook) => 4,
        Some(Piece::Queen) => 5,
        Some(Piece::King) => 6,
    };
    ((m.from as usize) * 64 + m.to as usize) * 7 + p
}
fn move_set(ms: &[Mv]) -> Vec<bool> {
    let mut v = vec![false; 64 * 64 * 7];
    for m in ms {
        v[move_index(&move_of(*m))] = true;
    }
    v
}
fn promo_class(m: &Move) -> &'static str {
    match m.promotion {
        None => "nopromo",
        Some(Piece::King) | Some(Piece::Pawn) => "promoKP",
        _ => "promoNBRQ",
    }
}
fn move_case(v: &View, m: &Move) -> Value {
    let mut c = v.case();
    c["move"] = json!({"from": m.from as u8, "to": m.to as u8, "promotion": m.promotion.map(|p| format!("{:?}", p)), "text": format!("{}", m)});
    c
}

thread_local! {
    static ALL_MOVES: Vec<Move> = all_move_values();
}

pub struct C04;
impl Monitor for C04 {
    fn state(&self, v: &View, t: &mut Tally, s: &Sink) {
        if v.gen_panic.is_some() {
            return;
        }
        let gen = move_set(v.lib_moves);
        ALL_MOVES.with(|all| {
            // fast path: the whole sweep under one guard; on a panic, redo move by move
            let fast = guarded(|| {
                let mut bad: Vec<Move> = Vec::new();
                for m in all.iter() {
                    if v.board.is_legal(*m) != gen[move_index(m)] {
                        bad.push(*m);
                    }
                }
                bad
            });
            t.validated += all.len() as u64;
            t.transitions += all.len() as u64;
            let bad = match fast {
                Ok(b) => b,
                Err(_) => {
                    let mut bad = Vec::new();
                    for m in all.iter() {
                        match guarded(|| v.board.is_legal(*m)) {
                            Ok(r) => {
                                if r != gen[move_index(m)] {
                                    bad.push(*m);
                                }
                            }
                            Err(e) => s.violation("C04.panic", &format!("is_legal panicked:{}", promo_class(m)), move_case(v, m), format!("is_legal({}) panicked on {}: {}", m, shredder(v.board), e)),
                        }
                    }
                    bad
                }
            };
            for m in bad {
                let is = !gen[move_index(&m)];
                let piece = v.pos.sq[m.from as usize].map_or("-".to_string(), |(k, c)| format!("{}{}", if c == v.pos.stm { "own" } else { "enemy" }, k.upper()));
                s.violation(
                    "C04.agree",
                    &format!("is_legal={} generated={}:{}:{}:{}", is, !is, piece, promo_class(&m), check_class(v.pos)),
                    move_case(v, &m),
                    format!("is_legal({}{}) = {} but generate_moves {} it on {}", m, m.promotion.map_or(String::new(), |p| format!(" [promotion {:?}]", p)), is, if is { "does not yield" } else { "yields" }, shredder(v.board)),
                );
            }
        });
        t.hit(check_class(v.pos));
    }
}

pub struct C15 {
    /// also sweep the panicking `play` (each illegal move costs an unwind)
    pub with_play: bool,
    /// 1: all 28,672 move values on every state. n > 1: all of them on every state whose exact key
    /// falls into residue class 0 mod n (a fixed function of the position), and on the other states
    /// all 448 values from every origin square that holds a piece of the mover
    pub full_sweep_mod: u64,
}
impl Monitor for C15 {
    fn state(&self, v: &View, t: &mut Tally, s: &Sink) {
        let legal = move_set(v.ref_moves);
        let full = self.full_sweep_mod <= 1 || ((v.key.0[0] ^ v.key.0[1].rotate_left(17) ^ v.key.0[2].rotate_left(31) ^ v.key.0[3].rotate_left(47) ^ v.key.0[4]).wrapping_mul(0x9E37_79B9_7F4A_7C15) >> 32) % self.full_sweep_mod == 0;
        t.hit(if full { "sweep: all 28,672 move values" } else { "sweep: all values from the mover's origin squares" });
        ALL_MOVES.with(|all| {
            let mut work = v.board.clone();
            for m in all.iter() {
                if !full && !matches!(v.pos.sq[m.from as usize], Some((_, c)) if c == v.pos.stm) {
                    continue;
                }
                let want_ok = legal[move_index(m)];
                let r = guarded(|| work.try_play(*m));
                t.validated += 1;
                t.transitions += 1;
                match r {
                    Err(e) => {
                        s.violation("C15.panic", &format!("try_play panicked:{}", promo_class(m)), move_case(v, m), format!("try_play({}) panicked on {}: {}", m, shredder(v.board), e));
                        work = v.board.clone();
                    }
                    Ok(Ok(())) => {
                        if !want_ok {
                            s.violation("C15.accepts", &format!("accepted illegal:{}:{}", promo_class(m), check_class(v.pos)), move_case(v, m), format!("try_play({}) succeeded on {} but the move is illegal", m, shredder(v.board)));
                        } else {
                            let mut u = v.board.clone();
                            match guarded(|| u.play_unchecked(*m)) {
                                Ok(()) => {
                                    if u != work {
                                        s.violation("C15.result", "try_play result differs from play_unchecked", move_case(v, m), format!("try_play({}) and play_unchecked disagree on {}", m, shredder(v.board)));
                                    }
                                }
                                Err(e) => s.violation("C15.panic", "play_unchecked panicked on legal move", move_case(v, m), e),
                            }
                        }
                        work = v.board.clone();
                    }
                    Ok(Err(_)) => {
                        if want_ok {
                            s.violation("C15.rejects", &format!("rejected legal:{}", check_class(v.pos)), move_case(v, m), format!("try_play({}) failed on {} but the move is legal", m, shredder(v.board)));
                        }
                        if &work != v.board {
                            s.violation("C15.atomic", &format!("failed try_play changed the board:{}", promo_class(m)), move_case(v, m), format!("after a failed try_play({}) the board {} != original {} (hash {:#x} vs {:#x}, checkers {:#x} vs {:#x}, pinned {:#x} vs {:#x})", m, shredder(&work), shredder(v.board), work.hash(), v.board.hash(), work.checkers().0, v.board.checkers().0, work.pinned().0, v.board.pinned().0));
                            work = v.board.clone();
                        }
                    }
                }
                if self.with_play {
                    let mut w2 = v.board.clone();
                    let r = guarded(|| w2.play(*m));
                    t.transitions += 1;
                    match r {
                        Ok(()) => {
                            if !want_ok {
                                s.violation("C15.play", &format!("play did not panic on illegal:{}", promo_class(m)), move_case(v, m), format!("play({}) returned normally on {} but the move is illegal", m, shredder(v.board)));
                            }
                        }
                        Err(_) => {
                            if want_ok {
                                s.violation("C15.play", "play panicked on legal move", move_case(v, m), format!("play({}) panicked on {} but the move is legal", m, shredder(v.board)));
                            }
                            if &w2 != v.board {
                                s.violation("C15.play", "panicking play changed the board", move_case(v, m), format!("play({}) panicked on {} and left a different board behind", m, shredder(v.board)));
                            }
                        }
                    }
                }
            }
        });
        t.hit(check_class(v.pos));
    }
}

// ------------------------------------------------------------------------------------------------
pub struct C16 {
    pub thorough: bool,
}
fn mask_menu(p: &Pos, thorough: bool) -> Vec<u64> {
    let mut v: Vec<u64> = vec![0, !0];
    for s in 0..64 {
        v.push(1u64 << s);
        v.push(!(1u64 << s));
    }
    let own: Vec<u8> = (0..64u8).filter(|&s| matches!(p.sq[s as usize], Some((_, c)) if c == p.stm)).collect();
    let enemy: u64 = (0..64u8).filter(|&s| matches!(p.sq[s as usize], Some((_, c)) if c != p.stm)).fold(0, |a, s| a | (1 << s));
    let own_bb = own.iter().fold(0u64, |a, &s| a | (1 << s));
    v.push(own_bb);
    v.push(enemy);
    v.push(!own_bb);
    for k in Kind::ALL {
        let bbk = (0..64u8).filter(|&s| matches!(p.sq[s as usize], Some((kk, _)) if kk == k)).fold(0u64, |a, s| a | (1 << s));
        v.push(bbk);
        v.push(!bbk);
    }
    for i in 0..own.len() {
        for j in i + 1..own.len() {
            v.push((1u64 << own[i]) | (1u64 << own[j]));
        }
    }
    let limit = if thorough { 10 } else { 6 };
    if own.len() <= limit {
        for sub in 0..(1u64 << own.len()) {
            let mut m = 0u64;
            for (i, &s) in own.iter().enumerate() {
                if sub >> i & 1 == 1 {
                    m |= 1 << s;
                }
            }
            v.push(m);
            // the same subset with all non-own squares added: irrelevant bits must not matter
            v.push(m | !own_bb);
        }
    }
    v.sort_unstable();
    v.dedup();
    v
}
fn mask_case(v: &View, mask: u64, abort_at: Option<usize>) -> Value {
    let mut c = v.case();
    c["mask"] = json!(format!("{:#018x}", mask));
    c["abort_at"] = json!(abort_at);
    c
}
pub fn check_mask(v: &View, mask: u64, s: &Sink, t: &mut Tally) {
    let bbm = BitBoard(mask);
    // no abort: collect batches
    let mut batches: Vec<PieceMoves> = Vec::new();
    let r = guarded(|| {
        v.board.generate_moves_for(bbm, |pm| {
            batches.push(pm);
            false
        })
    });
    t.transitions += 1;
    t.validated += 1;
    let ret = match r {
        Ok(x) => x,
        Err(e) => {
            s.violation("C16.panic", "generate_moves_for panicked", mask_case(v, mask, None), format!("generate_moves_for({:#x}) panicked on {}: {}", mask, shredder(v.board), e));
            return;
        }
    };
    if ret {
        s.violation("C16.return", "returned true although the listener never aborted", mask_case(v, mask, None), format!("generate_moves_for({:#x}) returned true on {} with a listener that always returns false", mask, shredder(v.board)));
    }
    let mut got: Vec<Mv> = batches.iter().flat_map(|pm| pm.into_iter().map(mv_of)).collect();
    got.sort_unstable();
    let want: Vec<Mv> = v.ref_moves.iter().copied().filter(|m| mask >> m.from & 1 == 1).collect();
    if got != want {
        let extra: Vec<String> = got.iter().filter(|m| !want.contains(m)).map(|m| m.text()).collect();
        let missing: Vec<String> = want.iter().filter(|m| !got.contains(m)).map(|m| m.text()).collect();
        let sig = if !extra.is_empty() {
            let m = got.iter().find(|m| !want.contains(m)).unwrap();
            format!("extra:{}:origin-in-mask={}", kind_letter(v.pos, *m), mask >> m.from & 1 == 1)
        } else if !missing.is_empty() {
            let m = want.iter().find(|m| !got.contains(m)).unwrap();
            format!("missing:{}", kind_letter(v.pos, *m))
        } else {
            "duplicate".to_string()
        };
        s.violation("C16.filter", &sig, mask_case(v, mask, None), format!("generate_moves_for({:#x}) on {}: extra {:?}, missing {:?}", mask, shredder(v.board), extra, missing));
    }
    if batches.iter().any(|pm| pm.is_empty() || pm.to.is_empty()) {
        s.violation("C16.batch", "empty batch delivered", mask_case(v, mask, None), format!("an empty batch was handed to the listener on {} mask {:#x}", shredder(v.board), mask));
    }
    if batches.len() > 18 {
        s.violation("C16.batch", "more than 18 batches", mask_case(v, mask, None), format!("{} batches on {} mask {:#x}", batches.len(), shredder(v.board), mask));
    }
    t.hit(match batches.len() {
        0 => "0 batches",
        1..=4 => "1-4 batches",
        5..=10 => "5-10 batches",
        _ => ">10 batches",
    });
    // every abort point
    for k in 1..=batches.len() {
        let mut calls = 0usize;
        let r = guarded(|| {
            v.board.generate_moves_for(bbm, |_| {
                calls += 1;
                calls == k
            })
        });
        t.transitions += 1;
        t.validated += 1;
        match r {
            Err(e) => s.violation("C16.panic", "generate_moves_for panicked (aborting listener)", mask_case(v, mask, Some(k)), e),
            Ok(ret) => {
                if calls != k {
                    s.violation("C16.abort", "listener called again after it returned true", mask_case(v, mask, Some(k)), format!("listener aborted at call {} but was called {} times on {} mask {:#x}", k, calls, shredder(v.board), mask));
                }
                if !ret {
                    s.violation("C16.return", "returned false although the listener aborted", mask_case(v, mask, Some(k)), format!("listener aborted at call {} but generate_moves_for returned false on {} mask {:#x}", k, shredder(v.board), mask));
                }
            }
        }
    }
}
impl Monitor for C16 {
    fn state(&self, v: &View, t: &mut Tally, s: &Sink) {
        if v.gen_panic.is_some() {
            return;
        }
        for mask in mask_menu(v.pos, self.thorough) {
            check_mask(v, mask, s, t);
        }
    }
}

// ------------------------------------------------------------------------------------------------
fn monitor_for(prop: &str, thorough: bool) -> Box<dyn Monitor> {
    match prop {
        "C01" => Box::new(C01),
        "C02" => Box::new(C02),
        "C03" => Box::new(C03),
        "C04" => Box::new(C04),
        "C14" => Box::new(C14),
        "C15" => Box::new(C15 { with_play: true, full_sweep_mod: 1 }),
        "C16" => Box::new(C16 { thorough }),
        _ => unreachable!(),
    }
}

pub fn run(run: &mut Run) -> Result<(), String> {
    let q = run.quick();
    let pext = run.config.starts_with("pext");
    let prop = run.prop.clone();
    let mut plan = Plan::empty();
    let sub8: Vec<u8> = vec![63, 60, 56, 36, 35, 31, 9, 0];
    // release profile (no overflow checks, no debug assertions): the counters are where wrapping
    // arithmetic would show, so the clock roots and a shallow start tree are explored again
    let rel = run.config.ends_with("-rel");
    if rel {
        plan.clock = Some(if q { b(2, 1) } else { b(3, 2) });
        plan.start = Some(b(2, 1));
        plan.lines = Some(b(1, 1));
        let mon = monitor_for(&prop, !q);
        run.rule = "release profile: clock roots (half-move clock 98-100 x full-move number 65534/65535 x both colours), a shallow start tree and the curated lines, same monitors".into();
        run_plan(run, &plan, mon.as_ref(), &NoCand);
        return Ok(());
    }
    match prop.as_str() {
        "C01" | "C02" => {
            // C02 checks every outgoing edge of every visited state (also at the frontier), so the
            // "explore one ply" universes are run at depth 0 for it
            let d1 = if prop == "C01" { 1 } else { 0 };
            if pext {
                // second slider back end: everything except the largest sweeps
                plan.mid = Some(if q { b(2, 0) } else { b(3, 1) });
                plan.raws.push((Box::new(Castle { extra: 1, ek_rank2: false }), b(0, 0)));
                plan.raws.push((Box::new(EpUniverse::reduced()), b(0, 0)));
                plan.raws.push((Box::new(DoubleCheck { kings: vec![4, 27], own_kinds: vec![Kind::P, Kind::N] }), b(0, 0)));
                plan.lines = Some(b(1, 0));
                plan.raws.push((Box::new(EpCheck { second: vec![Kind::Q], files: if q { vec![0, 3] } else { (0..8).collect() } }), b(0, 0)));
                if !q {
                    plan.raws.push((Box::new(TwoLines { enemy_kings: vec![35] }), b(d1, 0)));
                    plan.start = Some(b(4, 0));
                    plan.r960 = Some(b(1, 0));
                    plan.raws.push((Box::new(ThreeMen { bk: None }), b(0, 0)));
                    plan.raws.push((Box::new(Checks { n: 2 }), b(0, 0)));
                    plan.raws.push((Box::new(EpUniverse::full()), b(0, 0)));
                }
            } else if q {
                plan.start = Some(b(4, 1));
                plan.mid = Some(b(2, 1));
                plan.r960 = Some(b(1, 0));
                plan.clock = Some(b(2, 0));
                plan.dfrc = Some((0..960, 8, b(0, 0)));
                plan.lines = Some(b(2, 1));
                plan.raws.push((Box::new(ThreeMen { bk: if prop == "C01" { None } else { Some(sub8.clone()) } }), b(0, 0)));
                plan.raws.push((Box::new(Castle { extra: 1, ek_rank2: false }), b(0, 0)));
                plan.raws.push((Box::new(EpUniverse::reduced()), b(0, 0)));
                plan.raws.push((Box::new(Checks { n: 2 }), b(0, 0)));
                plan.raws.push((Box::new(DoubleCheck { kings: vec![4, 27], own_kinds: vec![Kind::P, Kind::N] }), b(0, 0)));
                plan.raws.push((Box::new(TwoLines { enemy_kings: vec![35] }), b(d1, 0)));
                plan.raws.push((Box::new(EpUniverse::own_sliders()), b(d1, 0)));
                plan.raws.push((Box::new(CheckPin { kings: vec![4, 27] }), b(0, 0)));
                plan.raws.push((Box::new(CastleBox { max_items: 3 }), b(0, 0)));
                plan.raws.push((Box::new(EpExposure), b(0, 0)));
                plan.raws.push((Box::new(Castle { extra: 0, ek_rank2: true }), b(0, 0)));
                plan.raws.push((Box::new(EpUniverse::before_push(q)), b(d1, 0)));
                plan.raws.push((Box::new(PinUniverse { kings: vec![4, 27], far_side: false }), b(0, 0)));
                plan.raws.push((Box::new(EpStale), b(0, 0)));
                plan.raws.push((Box::new(EpFile), b(0, 0)));
                plan.raws.push((Box::new(PinUniverse { kings: vec![27, 36], far_side: true }), b(0, 0)));
                plan.raws.push((Box::new(PromoUniverse { sliders: vec![Kind::R] }), b(d1, 0)));
                plan.raws.push((Box::new(Material), b(0, 0)));
                plan.raws.push((Box::new(EpCheck { second: vec![Kind::Q], files: (0..8).collect() }), b(0, 0)));
                plan.raws.push((Box::new(Caged { inner: Box::new(CheckPin { kings: vec![15, 55] }), variants: 3, mover: true }), b(0, 0)));
                plan.raws.push((Box::new(CastlePlay { visitors: vec![Kind::R] }), b(if prop == "C01" { 3 } else { 2 }, 0)));
                plan.raws.push((Box::new(RayFill { kings: vec![4, 27], max: 3 }), b(0, 0)));
                plan.raws.push((Box::new(EpDiscover), b(d1, 0)));
                plan.raws.push((Box::new(TwoPins { kings: vec![27, 4], kinds: vec![Kind::Q, Kind::R, Kind::B] }), b(0, 0)));
            } else {
                plan.raws.push((Box::new(TwoPins { kings: vec![27, 4, 0, 36, 63], kinds: vec![Kind::Q, Kind::R, Kind::B, Kind::N, Kind::P] }), b(0, 0)));
                plan.raws.push((Box::new(EpDiscover), b(d1, 0)));
                plan.raws.push((Box::new(RayFill { kings: vec![4, 27, 0, 63, 36, 15], max: 3 }), b(d1, 0)));
                plan.raws.push((Box::new(CastlePlay { visitors: vec![Kind::R, Kind::Q, Kind::N] }), b(if prop == "C01" { 3 } else { 2 }, 0)));
                plan.raws.push((Box::new(Caged { inner: Box::new(CheckPin { kings: vec![15, 55, 12, 52, 20, 44, 0, 63, 27] }), variants: 3, mover: true }), b(0, 0)));
                plan.raws.push((Box::new(EpCheck { second: vec![Kind::B, Kind::R, Kind::Q], files: (0..8).collect() }), b(d1, 0)));
                plan.raws.push((Box::new(PinUniverse { kings: vec![27, 36, 18, 45, 4], far_side: true }), b(0, 0)));
                plan.raws.push((Box::new(PromoUniverse { sliders: vec![Kind::R, Kind::B, Kind::Q] }), b(d1, 0)));
                plan.raws.push((Box::new(Material), b(d1, 0)));
                plan.raws.push((Box::new(PinUniverse { kings: vec![4, 27, 0, 60, 36], far_side: false }), b(0, 0)));
                plan.raws.push((Box::new(EpStale), b(0, 0)));
                plan.raws.push((Box::new(EpFile), b(d1, 0)));
                plan.raws.push((Box::new(Castle { extra: 1, ek_rank2: true }), b(0, 0)));
                plan.raws.push((Box::new(EpUniverse::before_push(q)), b(d1, 0)));
                plan.raws.push((Box::new(EpExposure), b(d1, 0)));
                plan.raws.push((Box::new(CheckPin { kings: vec![4, 27, 0, 60] }), b(0, 0)));
                plan.raws.push((Box::new(CastleBox { max_items: 4 }), b(1, 0)));
                plan.lines = Some(b(3, 2));
                plan.raws.push((Box::new(DoubleCheck { kings: vec![4, 27, 0, 60], own_kinds: NONKING.to_vec() }), b(0, 0)));
                plan.raws.push((Box::new(TwoLines { enemy_kings: vec![35, 60, 63] }), b(d1, 0)));
                plan.start = Some(b(5, 1));
                plan.mid = Some(b(3, 2));
                plan.r960 = Some(b(3, 0));
                plan.clock = Some(b(3, 1));
                plan.dfrc = Some((0..960, 1, b(if prop == "C01" { 1 } else { 0 }, 0)));
                plan.raws.push((Box::new(ThreeMen { bk: None }), b(1, 1)));
                // C01 checks one move list per state; C02 checks every outgoing edge (about 12x the
                // work), so it takes every 10th king placement of the 4-man universe
                plan.raws.push((Box::new(FourMen { kings: if prop == "C01" { None } else { Some(king_pairs_stride(10)) }, with_flags: false }), b(0, 0)));
                if prop == "C01" {
                    plan.raws.push((Box::new(NMen { kings: vec![(4, 60), (0, 10)], n: 3 }), b(0, 0)));
                }
                plan.raws.push((Box::new(Castle { extra: 2, ek_rank2: false }), b(0, 0)));
                plan.raws.push((Box::new(EpUniverse::full()), b(1, 0)));
                plan.raws.push((Box::new(Checks { n: 3 }), b(0, 0)));
            }
        }
        "C03" | "C14" => {
            if q {
                plan.start = Some(b(4, 1));
                plan.mid = Some(b(2, 1));
                plan.r960 = Some(b(1, 1));
                plan.clock = Some(b(2, 1));
                plan.lines = Some(b(2, 1));
                plan.raws.push((Box::new(ThreeMen { bk: Some(sub8.clone()) }), b(1, 1)));
                plan.raws.push((Box::new(Castle { extra: 1, ek_rank2: false }), b(1, 1)));
                plan.raws.push((Box::new(EpUniverse::reduced()), b(1, 1)));
                plan.raws.push((Box::new(TwoLines { enemy_kings: vec![35] }), b(1, 1)));
                plan.raws.push((Box::new(EpUniverse::own_sliders()), b(1, 0)));
                plan.raws.push((Box::new(EpUniverse::before_push(q)), b(1, 0)));
                plan.raws.push((Box::new(PromoUniverse { sliders: vec![Kind::R] }), b(1, 0)));
                plan.raws.push((Box::new(Battery { enemy_kings: vec![35, 28, 0, 63, 4, 59], stride: 1 }), b(1, 0)));
                plan.raws.push((Box::new(CastlePlay { visitors: vec![Kind::R] }), b(3, 0)));
                plan.raws.push((Box::new(RayFill { kings: vec![27], max: 3 }), b(1, 0)));
                plan.raws.push((Box::new(EpDiscover), b(1, 0)));
            } else {
                plan.raws.push((Box::new(EpDiscover), b(1, 1)));
                plan.raws.push((Box::new(RayFill { kings: vec![4, 27, 0, 63], max: 3 }), b(1, 1)));
                plan.raws.push((Box::new(CastlePlay { visitors: vec![Kind::R, Kind::Q, Kind::N] }), b(3, 1)));
                plan.raws.push((Box::new(Battery { enemy_kings: (0..64).collect(), stride: 1 }), b(1, 1)));
                plan.raws.push((Box::new(EpCheck { second: vec![Kind::Q], files: (0..8).collect() }), b(1, 0)));
                plan.lines = Some(b(3, 2));
                plan.raws.push((Box::new(PromoUniverse { sliders: vec![Kind::R, Kind::B, Kind::Q] }), b(1, 1)));
                plan.raws.push((Box::new(EpUniverse::before_push(q)), b(1, 1)));
                plan.raws.push((Box::new(TwoLines { enemy_kings: vec![35, 60, 63] }), b(1, 1)));
                plan.raws.push((Box::new(DoubleCheck { kings: vec![4, 27], own_kinds: vec![Kind::P, Kind::N, Kind::R] }), b(1, 0)));
                plan.start = Some(b(5, 1));
                plan.mid = Some(b(3, 2));
                plan.r960 = Some(b(2, 1));
                plan.clock = Some(b(3, 2));
                plan.dfrc = Some((0..960, 1, b(0, 0)));
                plan.raws.push((Box::new(ThreeMen { bk: None }), b(1, 1)));
                plan.raws.push((Box::new(FourMen { kings: Some(six_king_placements()), with_flags: true }), b(1, 1)));
                plan.raws.push((Box::new(Castle { extra: 2, ek_rank2: false }), b(1, 1)));
                plan.raws.push((Box::new(EpUniverse::full()), b(1, 1)));
                plan.raws.push((Box::new(Checks { n: 3 }), b(0, 0)));
            }
        }
        "C04" | "C16" => {
            if q {
                plan.start = Some(b(2, 1));
                plan.mid = Some(b(1, 1));
                plan.raws.push((Box::new(ThreeMen { bk: Some(vec![63, 36, 9, 0]) }), b(0, 0)));
                plan.raws.push((Box::new(Castle { extra: 0, ek_rank2: false }), b(0, 0)));
                plan.raws.push((Box::new(Checks { n: 2 }), b(0, 0)));
                plan.raws.push((Box::new(EpUniverse::small()), b(0, 0)));
                plan.raws.push((Box::new(DoubleCheck { kings: vec![4], own_kinds: vec![Kind::P] }), b(0, 0)));
                plan.raws.push((Box::new(CheckPin { kings: vec![4, 27] }), b(0, 0)));
                plan.raws.push((Box::new(CastleBox { max_items: 2 }), b(0, 0)));
                plan.raws.push((Box::new(EpExposure), b(0, 0)));
                plan.raws.push((Box::new(Castle { extra: 0, ek_rank2: true }), b(0, 0)));
                plan.raws.push((Box::new(PinUniverse { kings: vec![4, 27], far_side: false }), b(0, 0)));
                plan.raws.push((Box::new(PinUniverse { kings: vec![27], far_side: true }), b(0, 0)));
                plan.raws.push((Box::new(EpFile), b(0, 0)));
                plan.raws.push((Box::new(EpCheck { second: vec![Kind::Q], files: (0..8).collect() }), b(0, 0)));
                plan.raws.push((Box::new(RayFill { kings: vec![27], max: 3 }), b(0, 0)));
                plan.raws.push((Box::new(TwoPins { kings: vec![27], kinds: vec![Kind::Q, Kind::R] }), b(0, 0)));
                plan.lines = Some(b(1, 1));
            } else {
                plan.raws.push((Box::new(TwoPins { kings: vec![27, 4], kinds: vec![Kind::Q, Kind::R, Kind::B] }), b(0, 0)));
                plan.raws.push((Box::new(RayFill { kings: vec![4, 27, 0, 63], max: 3 }), b(0, 0)));
                plan.raws.push((Box::new(EpCheck { second: vec![Kind::B, Kind::R, Kind::Q], files: (0..8).collect() }), b(0, 0)));
                plan.raws.push((Box::new(Caged { inner: Box::new(CheckPin { kings: vec![15, 55] }), variants: 3, mover: true }), b(0, 0)));
                plan.raws.push((Box::new(PinUniverse { kings: vec![27, 36, 18], far_side: true }), b(0, 0)));
                plan.raws.push((Box::new(Material), b(0, 0)));
                plan.raws.push((Box::new(PinUniverse { kings: vec![4, 27, 0, 60, 36], far_side: false }), b(0, 0)));
                plan.raws.push((Box::new(EpStale), b(0, 0)));
                plan.raws.push((Box::new(EpFile), b(0, 0)));
                plan.raws.push((Box::new(Castle { extra: 1, ek_rank2: true }), b(0, 0)));
                plan.raws.push((Box::new(EpExposure), b(0, 0)));
                plan.raws.push((Box::new(CheckPin { kings: vec![4, 27, 0, 60] }), b(0, 0)));
                plan.raws.push((Box::new(CastleBox { max_items: 3 }), b(0, 0)));
                plan.lines = Some(b(2, 1));
                plan.raws.push((Box::new(DoubleCheck { kings: vec![4, 27, 0, 60], own_kinds: NONKING.to_vec() }), b(0, 0)));
                plan.raws.push((Box::new(TwoLines { enemy_kings: vec![35] }), b(1, 0)));
                plan.start = Some(b(3, 1));
                plan.mid = Some(b(2, 1));
                plan.r960 = Some(b(1, 0));
                plan.clock = Some(b(1, 0));
                plan.raws.push((Box::new(ThreeMen { bk: None }), b(0, 0)));
                plan.raws.push((Box::new(Castle { extra: 2, ek_rank2: false }), b(0, 0)));
                plan.raws.push((Box::new(Checks { n: 2 }), b(0, 0)));
                plan.raws.push((Box::new(EpUniverse::full()), b(0, 0)));
                plan.raws.push((Box::new(FourMen { kings: Some(six_king_placements()), with_flags: false }), b(0, 0)));
            }
        }
        "C15" => {
            // plan A: try_play over all 28,672 move values on many states
            if q {
                plan.start = Some(b(2, 1));
                plan.mid = Some(b(1, 1));
                plan.raws.push((Box::new(ThreeMen { bk: Some(vec![63]) }), b(0, 0)));
                plan.raws.push((Box::new(Castle { extra: 0, ek_rank2: false }), b(0, 0)));
                plan.raws.push((Box::new(Checks { n: 1 }), b(0, 0)));
                plan.raws.push((Box::new(DoubleCheck { kings: vec![4], own_kinds: vec![Kind::P] }), b(0, 0)));
                plan.raws.push((Box::new(CheckPin { kings: vec![27] }), b(0, 0)));
                plan.raws.push((Box::new(EpExposure), b(0, 0)));
                plan.raws.push((Box::new(PinUniverse { kings: vec![27], far_side: false }), b(0, 0)));
                plan.raws.push((Box::new(EpCheck { second: vec![Kind::Q], files: vec![0, 3] }), b(0, 0)));
                plan.lines = Some(b(1, 0));
            } else {
                plan.raws.push((Box::new(EpCheck { second: vec![Kind::B, Kind::R, Kind::Q], files: (0..8).collect() }), b(0, 0)));
                plan.raws.push((Box::new(PinUniverse { kings: vec![4, 27], far_side: false }), b(0, 0)));
                plan.raws.push((Box::new(EpFile), b(0, 0)));
                plan.raws.push((Box::new(EpExposure), b(0, 0)));
                plan.raws.push((Box::new(CheckPin { kings: vec![4, 27] }), b(0, 0)));
                plan.raws.push((Box::new(CastleBox { max_items: 2 }), b(0, 0)));
                plan.lines = Some(b(2, 1));
                plan.raws.push((Box::new(DoubleCheck { kings: vec![4, 27], own_kinds: vec![Kind::P, Kind::N, Kind::R] }), b(0, 0)));
                plan.start = Some(b(3, 1));
                plan.mid = Some(b(2, 1));
                plan.r960 = Some(b(1, 0));
                plan.clock = Some(b(1, 0));
                plan.raws.push((Box::new(ThreeMen { bk: None }), b(0, 0)));
                plan.raws.push((Box::new(Castle { extra: 2, ek_rank2: false }), b(0, 0)));
                plan.raws.push((Box::new(Checks { n: 2 }), b(0, 0)));
                plan.raws.push((Box::new(EpUniverse::full()), b(0, 0)));
            }
            plan.walk = Some(if q { (40, 40, 4, 7, b(0, 0)) } else { (240, 60, 2, 7, b(0, 0)) });
            run.tag = " [try_play]".into();
            run_plan(run, &plan, &C15 { with_play: false, full_sweep_mod: if q { 3 } else { 1 } }, &NoCand);
            // plan B: the panicking `play` over the same 28,672 values on a small family (each
            // illegal move costs an unwind)
            plan = Plan::empty();
            run.tag = " [play]".into();
            if q {
                plan.start = Some(b(1, 1));
                plan.mid = Some(b(0, 0));
            } else {
                plan.start = Some(b(2, 1));
                plan.mid = Some(b(1, 1));
                plan.clock = Some(b(0, 0));
                plan.raws.push((Box::new(Castle { extra: 0, ek_rank2: false }), b(0, 0)));
            }
        }
        _ => unreachable!(),
    }
    // deterministic long walks from real starts (10-60 plies of history behind every root)
    if !pext && prop != "C15" {
        let heavy = prop == "C04" || prop == "C16";
        let depth = if prop == "C02" || heavy { 0 } else { 1 };
        plan.walk = Some(if q { (if heavy { 60 } else { 240 }, 40, 2, 7, b(depth, 1)) } else { (if heavy { 240 } else { 960 }, 60, 1, 7, b(depth, 1)) });
    }
    let mon = monitor_for(&prop, !q);
    run.rule = match prop.as_str() {
        "C01" => "every visited state: the multiset of moves delivered by generate_moves is compared with the reference model's legal moves (refinement, enabled-set side); distinct = exact-key distinct in BFS universes, distinct raw states in constructed universes; non-trivial = mover in check, or a pinned piece, castling right or en-passant square present".into(),
        "C02" => "every explored edge: alpha(successor) compared field by field with refmodel.make; non-trivial as for C01 (counted on states)".into(),
        "C03" => "every visited state (histories include null moves): checkers()/pinned() vs literal definitions, equality with freshly parsed / freshly built board, equality of merged histories".into(),
        "C04" => "every visited state x all 28,672 move values: is_legal vs membership in the generated set".into(),
        "C14" => "every visited state: null_move refused iff in check, result compared with the reference model and with freshly constructed boards".into(),
        "C15" => if q { "every visited state x move values: try_play (and play) vs reference legality, result equality, atomicity on failure. Quick tier: all 28,672 values on the states whose exact key falls into one fixed residue class of three, all 448 values from every origin square holding a piece of the mover on the others (see outcome classes); thorough: all 28,672 on every state".into() } else { "every visited state x all 28,672 move values: try_play (and play) vs reference legality, result equality, atomicity on failure".into() },
        "C16" => "every visited state x mask menu x every abort point".into(),
        _ => String::new(),
    };
    run.assume("the reference model (mailbox, make-move-and-test legality) is the arbiter of the rules; it is validated against published perft values before every run");
    run.assume("bounds: see universes[].bounds; positions outside the enumerated universes and histories longer than the depth bound are not covered");
    if prop == "C16" {
        run.assume("2^64 masks are not enumerated: the mask menu is all single squares and their complements, piece-kind sets, own/enemy sets, all pairs of own pieces, and all subsets of the mover's pieces (with and without all irrelevant bits) when the mover has few pieces");
    }
    run_plan(run, &plan, mon.as_ref(), &NoCand);
    if prop == "C03" && !q {
        crosscheck(run)?;
    }
    Ok(())
}

/// Thorough tier: (1) the explicit-state search must give the same counters with 1 thread as with
/// 16; (2) its number of distinct states must equal the `unique_state_count` of the independent
/// stateright-based explorer (/verif/srx) on the same transition system. A mismatch is a machinery
/// error (the explorer lost or invented states), never a verdict about the library.
fn crosscheck(run: &mut Run) -> Result<(), String> {
    struct Idle;
    impl Monitor for Idle {}
    let sets: Vec<(usize, Vec<String>)> = vec![
        (4, vec!["rnbqkbnr/pppppppp/8/8/8/8/PPPPPPPP/RNBQKBNR w KQkq - 0 1".to_string()]),
        (3, vec![KIWIPETE.to_string()]),
        (2, MID_ROOTS.iter().map(|s| s.to_string()).collect()),
    ];
    let mut results = Vec::new();
    for (depth, fens) in sets {
        let roots = fen_roots(&fens, &run.sink);
        let bd = Bounds { depth, max_nulls: 0 };
        let par = bfs(&roots, &bd, &Idle, &run.sink);
        let pool = rayon::ThreadPoolBuilder::new().num_threads(1).build().map_err(|e| e.to_string())?;
        let seq = pool.install(|| bfs(&roots, &bd, &Idle, &run.sink));
        if par.states != seq.states || par.transitions != seq.transitions {
            return Err(format!("explorer is not deterministic across thread counts: 16 threads {}/{} vs 1 thread {}/{} (states/transitions)", par.states, par.transitions, seq.states, seq.transitions));
        }
        let srx = "/verif/target/srx/release/srx";
        let mut entry = json!({"depth_plies": depth, "roots": roots.len(), "mcx_distinct_states": par.states, "mcx_transitions": par.transitions, "same_with_1_thread": true});
        if std::path::Path::new(srx).exists() && roots.len() == fens.len() {
            let out = std::process::Command::new(srx).arg(format!("{}", depth + 1)).args(&fens).output().map_err(|e| format!("cannot run srx: {}", e))?;
            let txt = String::from_utf8_lossy(&out.stdout).to_string();
            let unique: Option<u64> = txt.split_whitespace().find_map(|w| w.strip_prefix("unique=").and_then(|x| x.parse().ok()));
            match unique {
                Some(u) => {
                    entry["stateright_unique_state_count"] = json!(u);
                    if u != par.states {
                        return Err(format!("state-count cross-check failed: mcx visited {} distinct states, stateright {} (depth {}, {} roots)", par.states, u, depth, roots.len()));
                    }
                }
                None => return Err(format!("srx gave no count: {:?} / {:?}", txt, String::from_utf8_lossy(&out.stderr))),
            }
        } else {
            entry["stateright_unique_state_count"] = json!("not cross-checked (srx binary not built or a root was rejected)");
        }
        results.push(entry);
    }
    run.extra.insert("explorer_crosscheck".into(), Value::Array(results));
    Ok(())
}

pub fn replay(prop: &str, body: &Value) -> Result<(), String> {
    let mon = monitor_for(prop, true);
    let case = &body["case"];
    // C04/C15/C16 cases carry an extra move / mask; the state monitor re-sweeps everything for
    // that state, which includes the recorded move / mask.
    if prop == "C16" {
        if let Some(ms) = case.get("mask").and_then(|m| m.as_str()) {
            let mask = u64::from_str_radix(ms.trim_start_matches("0x"), 16).map_err(|e| format!("MACHINERY: {}", e))?;
            let local = Sink::new(prop, 0);
            let mut t = Tally::default();
            with_view(case, |v| check_mask(v, mask, &local, &mut t)).map_err(|e| format!("MACHINERY: {}", e))?;
            let monitor = body["monitor"].as_str().unwrap_or("");
            for v in local.all_violations() {
                if v.monitor == monitor {
                    return Err(format!("[{}] {}", v.monitor, v.detail));
                }
            }
            return Ok(());
        }
    }
    replay_board_case(prop, mon.as_ref(), &NoCand, body)
}
