use crate::report::Run;
use serde_json::Value;
pub fn run(_run: &mut Run) -> Result<(), String> { Err("not implemented".into()) }
pub fn replay(_prop: &str, _body: &Value) -> Result<(), String> { Err("MACHINERY: not implemented".into()) }
