//! C05 geometry lookups, C11 hash separation, C17 PieceMoves, C18 BitBoard, C19 coordinates/text.

use crate::bridge::*;
use crate::report::{Run, Sink, Tally};
use cozy_chess::*;
use rayon::prelude::*;
use refmodel::geom;
use refmodel::Col;
use serde_json::{json, Value};
use std::time::Instant;

mod c05;
mod c11;
mod c17;
mod c18;
pub mod c19;
pub use c19::ALPHA40;

pub fn run(run: &mut Run) -> Result<(), String> {
    match run.prop.as_str() {
        "C05" => c05::run(run),
        "C11" => c11::run(run),
        "C17" => c17::run(run),
        "C18" => c18::run(run),
        "C19" => c19::run(run),
        _ => unreachable!(),
    }
    Ok(())
}

pub fn replay(prop: &str, body: &Value) -> Result<(), String> {
    let local = Sink::new(prop, 0);
    let mut t = Tally::default();
    let case = &body["case"];
    match prop {
        "C05" => c05::replay(case, &local, &mut t)?,
        "C11" => c11::replay(case, &local, &mut t)?,
        "C17" => c17::replay(case, &local, &mut t)?,
        "C18" => c18::replay(case, &local, &mut t)?,
        "C19" => c19::replay(case, &local, &mut t)?,
        _ => unreachable!(),
    }
    let monitor = body["monitor"].as_str().unwrap_or("");
    for v in local.all_violations() {
        if v.monitor == monitor {
            return Err(format!("[{}] {}", v.monitor, v.detail));
        }
    }
    Ok(())
}

pub(crate) fn hex(x: u64) -> String {
    format!("{:#018x}", x)
}
pub(crate) fn unhex(v: &Value) -> Result<u64, String> {
    let s = v.as_str().ok_or("MACHINERY: expected hex string")?;
    u64::from_str_radix(s.trim_start_matches("0x"), 16).map_err(|e| format!("MACHINERY: {}", e))
}
