//! Per-property decision procedures. Each property has `run` (explore its universes with its
//! monitors) and a replay that re-evaluates one recorded case with plain library calls.

pub mod core;
pub mod posn;
pub mod pure;
pub mod textp;

use crate::bridge::*;
use crate::explore::*;
use crate::report::{Run, Sink, Tally};
use crate::universes::*;
use serde_json::{json, Value};
use std::time::Instant;

pub struct Plan {
    pub start: Option<Bounds>,
    pub r960: Option<Bounds>,
    /// (white numbers, black stride, bounds) — stateless
    pub dfrc: Option<(std::ops::Range<u32>, u32, Bounds)>,
    pub mid: Option<Bounds>,
    pub clock: Option<Bounds>,
    /// curated lines from real starts (every prefix a root)
    pub lines: Option<Bounds>,
    /// deterministic long walks: (number of starts, plies, take a root every n plies, null move
    /// every n-th ply (0 = never), bounds)
    pub walk: Option<(usize, usize, usize, usize, Bounds)>,
    /// king-march lines: (number of starts, plies, take a root every n plies, bounds)
    pub march: Option<(usize, usize, usize, Bounds)>,
    pub raws: Vec<(Box<dyn RawUniverse>, Bounds)>,
}

impl Plan {
    pub fn empty() -> Plan {
        Plan { start: None, r960: None, dfrc: None, mid: None, clock: None, lines: None, walk: None, march: None, raws: Vec::new() }
    }
}

pub fn b(depth: usize, max_nulls: u8) -> Bounds {
    Bounds { depth, max_nulls }
}

fn bj(bd: &Bounds, extra: Value) -> Value {
    let mut v = json!({"depth_plies": bd.depth, "max_null_moves_per_history": bd.max_nulls, "alphabet": "every legal move of every visited state + null move"});
    if let Some(o) = extra.as_object() {
        for (k, x) in o {
            v[k] = x.clone();
        }
    }
    v
}

pub fn run_plan(run: &mut Run, plan: &Plan, mon: &dyn Monitor, cand: &dyn CandMonitor) {
    if let Some(bd) = &plan.start {
        let t0 = Instant::now();
        let roots = start_roots(&run.sink);
        let t = bfs(&roots, bd, mon, &run.sink);
        run.add("R-START", bj(bd, json!({"roots": roots.len(), "mode": "explicit-state BFS, exact keys"})), true, t0, t);
    }
    if let Some(bd) = &plan.mid {
        let t0 = Instant::now();
        let roots = mid_roots(&run.sink);
        let t = bfs(&roots, bd, mon, &run.sink);
        run.add("R-MID", bj(bd, json!({"roots": roots.len(), "mode": "explicit-state BFS, exact keys"})), true, t0, t);
    }
    if let Some(bd) = &plan.clock {
        let t0 = Instant::now();
        let roots = clock_roots(&run.sink);
        let t = bfs(&roots, bd, mon, &run.sink);
        run.add("R-CLOCK", bj(bd, json!({"roots": roots.len(), "mode": "explicit-state BFS, exact keys", "clocks": "hm in {98,99,100} x fm in {65534,65535} x both colours"})), true, t0, t);
    }
    if let Some(bd) = &plan.lines {
        let t0 = Instant::now();
        let roots = line_roots(&run.sink);
        let t = bfs(&roots, bd, mon, &run.sink);
        run.add("R-LINES", bj(bd, json!({"roots": roots.len(), "lines": LINES.len(), "mode": "explicit-state BFS from every prefix of curated legal game lines from real start positions"})), true, t0, t);
    }
    if let Some((nstarts, plies, root_every, null_every, bd)) = &plan.walk {
        let t0 = Instant::now();
        let step = std::cmp::max(1, 960 / *nstarts);
        let starts: Vec<(u32, u32)> = (0..960u32).step_by(step).map(|n| (n, (n * 7 + 13) % 960)).collect();
        let mut roots = walk_roots(&starts, *plies, 5, *null_every, *root_every, &run.sink);
        roots.extend(walk_roots(&starts.iter().map(|&(w, _)| (w, w)).collect::<Vec<_>>(), *plies, 11, *null_every, *root_every, &run.sink));
        // aggressive lines (checks first, then captures): many in-check positions and mates with many men
        roots.extend(walk_roots_mode(&starts.iter().map(|&(w, b)| (b, w)).collect::<Vec<_>>(), *plies * 2, 3, 0, *root_every, true, &run.sink));
        let t = bfs(&roots, bd, mon, &run.sink);
        run.add("R-WALK", bj(bd, json!({"roots": roots.len(), "starts": starts.len() * 3, "plies_per_line": plies, "root_every_plies": root_every, "null_move_every_plies": null_every,
            "schedule": "move index (mult*ply + w + 3b) mod #legal in the reference model's sorted list, mult 5 on double-Chess960 starts (n, 7n+13 mod 960) and mult 11 on Chess960 starts (n, n); plus 'aggressive' lines of twice the length (mult 3, no null moves) in which the mover picks among its checking moves if any, else among its captures if any", "mode": "explicit-state BFS from every root"})), true, t0, t);
    }
    if let Some((nstarts, plies, root_every, bd)) = &plan.march {
        let t0 = Instant::now();
        let step = std::cmp::max(1, 960 / *nstarts);
        let starts: Vec<(u32, u32)> = (0..960u32).step_by(step).flat_map(|n| [(n, (n * 11 + 5) % 960), (n, n)]).collect();
        let roots = march_roots(&starts, *plies, *root_every, &run.sink);
        let deep = roots.iter().filter(|(_, bd)| { let p = alpha(bd); refmodel::Col::ALL.iter().any(|c| p.king_sq(*c).map_or(false, |k| refmodel::rank_of(k) == c.other().back_rank()) && (p.rights[c.other() as usize][0].is_some() || p.rights[c.other() as usize][1].is_some())) }).count();
        let t = bfs(&roots, bd, mon, &run.sink);
        run.add("R-MARCH", bj(bd, json!({"roots": roots.len(), "starts": starts.len(), "plies_per_line": plies, "root_every_plies": root_every, "roots_with_a_king_on_the_enemy_back_rank_while_the_enemy_has_a_castling_right": deep,
            "schedule": "one side walks its king towards a corner of the enemy back rank (closest legal king step, ties by index), otherwise a scheduled non-king non-rook move; the other side never moves king or rooks while it has another move; no null moves", "mode": "explicit-state BFS from every root"})), true, t0, t);
    }
    if let Some(bd) = &plan.r960 {
        let t0 = Instant::now();
        let roots = roots_960(&run.sink);
        let t = bfs(&roots, bd, mon, &run.sink);
        run.add("R-960", bj(bd, json!({"roots": roots.len(), "mode": "explicit-state BFS, exact keys"})), true, t0, t);
    }
    if let Some((white, stride, bd)) = &plan.dfrc {
        let t0 = Instant::now();
        let t = dfs_all(dfrc_roots(&run.sink, white.clone(), *stride), bd, mon, &run.sink);
        let complete = white.start == 0 && white.end == 960 && *stride == 1;
        run.add(
            "R-DFRC",
            bj(bd, json!({"white_numbers": [white.start, white.end], "black_stride": stride, "all_960x960": complete, "mode": "stateless DFS"})),
            true,
            t0,
            t,
        );
    }
    for (u, bd) in &plan.raws {
        let t0 = Instant::now();
        let t = run_raw(u.as_ref(), bd, mon, cand, &run.sink);
        run.add(&u.name(), bj(bd, json!({"candidates": u.bounds(), "mode": "every candidate through BoardBuilder::build; accepted ones explored statelessly"})), true, t0, t);
    }
}

/// Build the View of the state a case describes and hand it to `f`.
pub fn with_view<R>(case: &Value, f: impl FnOnce(&View) -> R) -> Result<R, String> {
    let root = RootDesc::from_json(case.get("root").ok_or("case without root")?).ok_or("bad root")?;
    let path: Vec<Act> = case
        .get("path")
        .and_then(|p| p.as_array())
        .map(|a| a.iter().filter_map(|x| x.as_str().and_then(Act::parse)).collect())
        .unwrap_or_default();
    let board = board_of_case(case)?;
    let pos = alpha(&board);
    let key = Key::of(&pos);
    let ref_moves = pos.legal_moves();
    let (lib_moves, batches, gen_panic) = match guarded(|| gen_moves(&board)) {
        Ok((a, b)) => (a, b, None),
        Err(e) => (Vec::new(), Vec::new(), Some(e)),
    };
    let v = View {
        board: &board,
        pos: &pos,
        key,
        ref_moves: &ref_moves,
        lib_moves: &lib_moves,
        batches: &batches,
        gen_panic: gen_panic.as_deref(),
        root: &root,
        path: &path,
        depth: path.len(),
    };
    Ok(f(&v))
}

fn verdict(local: &Sink, monitor: &str) -> Result<(), String> {
    for v in local.all_violations() {
        if v.monitor == monitor {
            return Err(format!("[{}] {}", v.monitor, v.detail));
        }
    }
    Ok(())
}

/// Replay of the generic board-shaped cases (state / edge / merge / cand). If the library no longer
/// hands out the root board at all (the input is rejected), the recorded violation about that board
/// cannot occur: the replay does not reproduce.
pub fn replay_board_case(prop: &str, mon: &dyn Monitor, cand: &dyn CandMonitor, body: &Value) -> Result<(), String> {
    match replay_board_case_inner(prop, mon, cand, body) {
        Err(e) if e.starts_with("MACHINERY") && e.contains("rejected") => Ok(()),
        other => other,
    }
}
fn replay_board_case_inner(prop: &str, mon: &dyn Monitor, cand: &dyn CandMonitor, body: &Value) -> Result<(), String> {
    let case = &body["case"];
    let monitor = body["monitor"].as_str().unwrap_or("");
    let local = Sink::new(prop, 0);
    let mut t = Tally::default();
    match case["kind"].as_str().unwrap_or("") {
        "state" => {
            with_view(case, |v| mon.state(v, &mut t, &local)).map_err(|e| format!("MACHINERY: {}", e))?;
        }
        "edge" => {
            let mut parent = case.clone();
            let mut path = case["path"].as_array().cloned().unwrap_or_default();
            let last = path.pop().ok_or("MACHINERY: edge case without action")?;
            parent["path"] = Value::Array(path);
            let act = Act::parse(last.as_str().unwrap_or("")).ok_or("MACHINERY: bad action")?;
            with_view(&parent, |v| {
                let child = match act {
                    Act::Move(_) => apply(v.board, act).map(Some),
                    Act::Null => guarded(|| v.board.null_move()),
                };
                mon.edge(v, act, &child, &mut t, &local)
            })
            .map_err(|e| format!("MACHINERY: {}", e))?;
        }
        "merge" => {
            let a = board_of_case(&case["a"]).map_err(|e| format!("MACHINERY: {}", e))?;
            let bb = board_of_case(&case["b"]).map_err(|e| format!("MACHINERY: {}", e))?;
            let ca = case["a"].clone();
            let cb = case["b"].clone();
            mon.merge(&a, &|| ca.clone(), &bb, &|| cb.clone(), &mut t, &local);
        }
        "cand" => {
            let raw = raw_from_json(&case["raw"]).ok_or("MACHINERY: bad raw state")?;
            let built = build(&raw);
            cand.candidate(&raw, &built, &mut t, &local);
        }
        other => return Err(format!("MACHINERY: unknown case kind {:?}", other)),
    }
    verdict(&local, monitor)
}

pub fn merge_case(a: &dyn Fn() -> Value, b: &dyn Fn() -> Value) -> Value {
    json!({"kind": "merge", "a": a(), "b": b()})
}
pub fn cand_case(raw: &refmodel::Pos) -> Value {
    json!({"kind": "cand", "raw": raw_json(raw)})
}

pub fn run(run: &mut Run) -> Result<(), String> {
    match run.prop.as_str() {
        "C01" | "C02" | "C03" | "C04" | "C14" | "C15" | "C16" => core::run(run),
        "C06" | "C07" | "C09" | "C10" | "C12" | "C13" => posn::run(run),
        "C05" | "C11" | "C17" | "C18" | "C19" => pure::run(run),
        "C08" | "C20" => textp::run(run),
        other => Err(format!("unknown property {}", other)),
    }
}

/// Err(detail) = the recorded violation reproduces; Ok = it does not.
/// A machinery problem is reported as Err starting with "MACHINERY".
pub fn replay(body: &Value) -> Result<(), String> {
    let prop = body["property"].as_str().unwrap_or("");
    match prop {
        "C01" | "C02" | "C03" | "C04" | "C14" | "C15" | "C16" => core::replay(prop, body),
        "C06" | "C07" | "C09" | "C10" | "C12" | "C13" => posn::replay(prop, body),
        "C05" | "C11" | "C17" | "C18" | "C19" => pure::replay(prop, body),
        "C08" | "C20" => textp::replay(prop, body),
        other => Err(format!("MACHINERY: unknown property {}", other)),
    }
}
