use super::*;

fn check_slider(rook: bool, s: u8, occ: u64, with_const: bool, sink: &Sink, t: &mut Tally) {
    let sq = square_of(s);
    let want = if rook { geom::rook_attacks(s, occ) } else { geom::bishop_attacks(s, occ) };
    let name = if rook { "rook" } else { "bishop" };
    t.transitions += 1;
    t.validated += 1;
    let got = guarded(|| if rook { get_rook_moves(sq, BitBoard(occ)).0 } else { get_bishop_moves(sq, BitBoard(occ)).0 });
    match got {
        Ok(g) if g == want => {}
        Ok(g) => sink.violation("C05.slider", &format!("{} lookup differs from ray walk", name), json!({"fn": name, "sq": s, "occ": hex(occ)}), format!("get_{}_moves({}, {:#x}) = {:#x}, ray walk gives {:#x}", name, sq, occ, g, want)),
        Err(e) => sink.violation("C05.slider", &format!("{} lookup panicked", name), json!({"fn": name, "sq": s, "occ": hex(occ)}), e),
    }
    if with_const {
        t.transitions += 1;
        t.validated += 1;
        let gc = guarded(|| if rook { get_rook_moves_const(sq, BitBoard(occ)).0 } else { get_bishop_moves_const(sq, BitBoard(occ)).0 });
        match gc {
            Ok(g) if g == want => {}
            Ok(g) => sink.violation("C05.const", &format!("{} const variant differs from ray walk", name), json!({"fn": format!("{}_const", name), "sq": s, "occ": hex(occ)}), format!("get_{}_moves_const({}, {:#x}) = {:#x}, ray walk gives {:#x}", name, sq, occ, g, want)),
            Err(e) => sink.violation("C05.const", &format!("{} const variant panicked", name), json!({"fn": format!("{}_const", name), "sq": s, "occ": hex(occ)}), e),
        }
    }
}

fn subsets(mask: u64) -> impl Iterator<Item = u64> {
    let mut sub = 0u64;
    let mut done = false;
    std::iter::from_fn(move || {
        if done {
            return None;
        }
        let cur = sub;
        sub = sub.wrapping_sub(mask) & mask;
        if sub == 0 {
            done = true;
        }
        Some(cur)
    })
}

fn sliders(pairs: bool, sink: &Sink) -> Tally {
    (0..128u32)
        .into_par_iter()
        .fold(Tally::default, |mut t, i| {
            let rook = i < 64;
            let s = (i % 64) as u8;
            let rays = if rook { geom::rook_rays(s) } else { geom::bishop_rays(s) };
            let off = !rays;
            let off_bits: Vec<u64> = (0..64).map(|b| 1u64 << b).filter(|b| off & b != 0).collect();
            for on in subsets(rays) {
                t.states += 1;
                if on.count_ones() >= 2 {
                    t.nontrivial += 1;
                }
                check_slider(rook, s, on, true, sink, &mut t);
                check_slider(rook, s, on | off, true, sink, &mut t);
                for &b in &off_bits {
                    check_slider(rook, s, on | b, false, sink, &mut t);
                }
                if pairs {
                    for (x, &b1) in off_bits.iter().enumerate() {
                        for &b2 in &off_bits[x + 1..] {
                            check_slider(rook, s, on | b1 | b2, false, sink, &mut t);
                        }
                    }
                }
                t.evals += 1;
            }
            t.hit(if rook { "rook squares" } else { "bishop squares" });
            t
        })
        .reduce(Tally::default, Tally::merge)
}

fn cmp(name: &'static str, case: Value, got: Result<u64, String>, want: u64, sink: &Sink, t: &mut Tally) {
    t.transitions += 1;
    t.validated += 1;
    match got {
        Ok(g) if g == want => {}
        Ok(g) => sink.violation("C05.geometry", name, case, format!("{} = {:#x}, geometric definition gives {:#x}", name, g, want)),
        Err(e) => sink.violation("C05.geometry", name, case, e),
    }
}

fn leapers_and_lines(sink: &Sink) -> Tally {
    let mut t = Tally::default();
    for s in 0..64u8 {
        let q = square_of(s);
        t.states += 1;
        cmp("get_knight_moves", json!({"fn": "knight", "sq": s}), guarded(|| get_knight_moves(q).0), geom::knight(s), sink, &mut t);
        cmp("get_king_moves", json!({"fn": "king", "sq": s}), guarded(|| get_king_moves(q).0), geom::king(s), sink, &mut t);
        cmp("get_rook_rays", json!({"fn": "rook_rays", "sq": s}), guarded(|| get_rook_rays(q).0), geom::rook_rays(s), sink, &mut t);
        cmp("get_bishop_rays", json!({"fn": "bishop_rays", "sq": s}), guarded(|| get_bishop_rays(q).0), geom::bishop_rays(s), sink, &mut t);
        for c in Col::ALL {
            cmp("get_pawn_attacks", json!({"fn": "pawn_attacks", "sq": s, "color": c as u8}), guarded(|| get_pawn_attacks(q, color_of(c)).0), geom::pawn_attacks(s, c), sink, &mut t);
        }
        for o in 0..64u8 {
            t.states += 1;
            if geom::between(s, o) != 0 {
                t.nontrivial += 1;
            }
            cmp("get_between_rays", json!({"fn": "between", "a": s, "b": o}), guarded(|| get_between_rays(q, square_of(o)).0), geom::between(s, o), sink, &mut t);
            cmp("get_line_rays", json!({"fn": "line", "a": s, "b": o}), guarded(|| get_line_rays(q, square_of(o)).0), geom::line(s, o), sink, &mut t);
        }
    }
    t.evals = t.states;
    t
}

fn pawn_quiets(pairs: bool, sink: &Sink) -> Tally {
    (0..128u32)
        .into_par_iter()
        .fold(Tally::default, |mut t, i| {
            let c = Col::ALL[(i / 64) as usize];
            let s = (i % 64) as u8;
            // the two squares ahead (where they exist) are the relevant ones
            let mut ahead = 0u64;
            if let Some(a) = refmodel::step(s, 0, c.dir()) {
                ahead |= 1 << a;
                if let Some(b) = refmodel::step(a, 0, c.dir()) {
                    ahead |= 1 << b;
                }
            }
            let other: Vec<u64> = (0..64).map(|b| 1u64 << b).filter(|b| ahead & b == 0).collect();
            let all_other = !ahead;
            for on in subsets(ahead) {
                t.states += 1;
                t.evals += 1;
                let want = geom::pawn_quiets(s, c, on);
                if want != 0 {
                    t.nontrivial += 1;
                }
                let mut occs = vec![on, on | all_other];
                occs.extend(other.iter().map(|b| on | b));
                if pairs {
                    for (x, b1) in other.iter().enumerate() {
                        for b2 in &other[x + 1..] {
                            occs.push(on | b1 | b2);
                        }
                    }
                }
                for occ in occs {
                    cmp("get_pawn_quiets", json!({"fn": "pawn_quiets", "sq": s, "color": c as u8, "occ": hex(occ)}), guarded(|| get_pawn_quiets(square_of(s), color_of(c), BitBoard(occ)).0), want, sink, &mut t);
                }
            }
            t
        })
        .reduce(Tally::default, Tally::merge)
}

pub fn run(run: &mut Run) {
    let pairs = !run.quick();
    run.rule = "for every square every subset of the full rook ray set and of the full bishop ray set (a superset of the relevant-blocker subsets), each combined with the off-ray menu {none, all off-ray bits, each single off-ray bit (own square included)} (thorough: and each pair of off-ray bits); all 64 (x2) leaper / pawn-attack / ray arguments; all 64x64 ordered pairs for between / line; pawn pushes for all 64x2 x 4 occupancies of the two squares ahead x the same menu of irrelevant bits. non-trivial = at least two on-ray blockers / non-empty result".into();
    run.assume("2^64 occupancies are not enumerated: every on-ray subset is, and independence from off-ray bits is decided against the stated menu (all single bits, thorough: all pairs) — exhaustive for index functions whose dependence on irrelevant bits involves at most one (two) bit(s)");
    run.assume("the three build configurations (magic with overflow checks, magic release, PEXT) are each compared with the same ray-walking reference, hence with each other");
    let t0 = Instant::now();
    let t = sliders(pairs, &run.sink);
    run.add("P-SLIDERS", json!({"squares": 64, "on_ray_subsets": "all (rook: 2^|rook rays|, bishop: 2^|bishop rays| per square)", "off_ray_menu": if pairs { "none, all, every single bit, every pair of bits" } else { "none, all, every single bit" }, "const_variants": "on none/all patterns"}), true, t0, t);
    let t0 = Instant::now();
    let t = leapers_and_lines(&run.sink);
    run.add("P-LEAPERS-LINES", json!({"squares": 64, "colours": 2, "square_pairs": 4096}), true, t0, t);
    let t0 = Instant::now();
    let t = pawn_quiets(pairs, &run.sink);
    run.add("P-PAWN-QUIETS", json!({"squares": 64, "colours": 2, "relevant_occupancies": 4, "irrelevant_menu": if pairs { "none, all, single, pairs" } else { "none, all, single" }}), true, t0, t);
    run.sink.sample(|| json!({"fn": "rook", "sq": 27, "occ": hex(0x0000_0008_1400_0800), "expected": hex(geom::rook_attacks(27, 0x0000_0008_1400_0800))}));
    run.sink.sample(|| json!({"fn": "between", "a": 0, "b": 63, "expected": hex(geom::between(0, 63))}));
}

pub fn replay(case: &Value, sink: &Sink, t: &mut Tally) -> Result<(), String> {
    let f = case["fn"].as_str().ok_or("MACHINERY: no fn")?;
    let g = |k: &str| -> Result<u8, String> { case[k].as_u64().map(|x| x as u8).ok_or(format!("MACHINERY: no {}", k)) };
    match f {
        "rook" | "bishop" => check_slider(f == "rook", g("sq")?, unhex(&case["occ"])?, false, sink, t),
        "rook_const" | "bishop_const" => check_slider(f == "rook_const", g("sq")?, unhex(&case["occ"])?, true, sink, t),
        "knight" => cmp("get_knight_moves", case.clone(), guarded(|| get_knight_moves(square_of(g("sq").unwrap())).0), geom::knight(g("sq")?), sink, t),
        "king" => cmp("get_king_moves", case.clone(), guarded(|| get_king_moves(square_of(g("sq").unwrap())).0), geom::king(g("sq")?), sink, t),
        "rook_rays" => cmp("get_rook_rays", case.clone(), guarded(|| get_rook_rays(square_of(g("sq").unwrap())).0), geom::rook_rays(g("sq")?), sink, t),
        "bishop_rays" => cmp("get_bishop_rays", case.clone(), guarded(|| get_bishop_rays(square_of(g("sq").unwrap())).0), geom::bishop_rays(g("sq")?), sink, t),
        "pawn_attacks" => {
            let c = Col::ALL[g("color")? as usize];
            cmp("get_pawn_attacks", case.clone(), guarded(|| get_pawn_attacks(square_of(g("sq").unwrap()), color_of(c)).0), geom::pawn_attacks(g("sq")?, c), sink, t)
        }
        "between" => cmp("get_between_rays", case.clone(), guarded(|| get_between_rays(square_of(g("a").unwrap()), square_of(g("b").unwrap())).0), geom::between(g("a")?, g("b")?), sink, t),
        "line" => cmp("get_line_rays", case.clone(), guarded(|| get_line_rays(square_of(g("a").unwrap()), square_of(g("b").unwrap())).0), geom::line(g("a")?, g("b")?), sink, t),
        "pawn_quiets" => {
            let c = Col::ALL[g("color")? as usize];
            let occ = unhex(&case["occ"])?;
            cmp("get_pawn_quiets", case.clone(), guarded(|| get_pawn_quiets(square_of(g("sq").unwrap()), color_of(c), BitBoard(occ)).0), geom::pawn_quiets(g("sq")?, c, occ), sink, t)
        }
        _ => return Err("MACHINERY: unknown fn".into()),
    }
    Ok(())
}
