use super::*;
use crate::explore::{Act, Bounds, Monitor, View};
use crate::props::{run_plan, Plan};
use crate::universes::*;
use refmodel::{Kind, Pos};

pub struct Keys {
    /// non-king pieces: absolute keys; kings: key relative to the king standing on REF_SQ
    piece: [[[Option<u64>; 64]; 6]; 2],
    castle: [[u64; 8]; 2],
    ep: [u64; 8],
    side: u64,
    /// K(White, REF_SQ[0]) ^ K(Black, REF_SQ[1])
    konst: u64,
}
const REF_SQ: [u8; 2] = [4, 60];

fn hash_of(p: &Pos) -> Result<u64, String> {
    match build(p) {
        Ok(Ok(b)) => Ok(b.hash()),
        Ok(Err(e)) => Err(format!("base board rejected ({}): {}", e, refmodel::text::to_fen(p, true))),
        Err(e) => Err(e),
    }
}
fn far(a: u8, b: u8) -> bool {
    (refmodel::file_of(a) as i32 - refmodel::file_of(b) as i32).abs() > 1 || (refmodel::rank_of(a) as i32 - refmodel::rank_of(b) as i32).abs() > 1
}

/// Black-box extraction: key(feature) = hash(base + feature) ^ hash(base) on accepted boards.
pub fn extract() -> Result<Keys, String> {
    let mut k = Keys { piece: [[[None; 64]; 6]; 2], castle: [[0; 8]; 2], ep: [0; 8], side: 0, konst: 0 };
    let king_menu: [(u8, u8); 8] = [(0, 63), (7, 56), (63, 0), (56, 7), (4, 60), (24, 47), (39, 16), (3, 59)];
    for c in Col::ALL {
        for kind in [Kind::P, Kind::N, Kind::B, Kind::R, Kind::Q] {
            for s in 0..64u8 {
                if kind == Kind::P && (s / 8 == 0 || s / 8 == 7) {
                    continue;
                }
                let mut found = None;
                for &(wk, bk) in &king_menu {
                    if wk == s || bk == s {
                        continue;
                    }
                    let mut base = Pos::empty();
                    base.sq[wk as usize] = Some((Kind::K, Col::W));
                    base.sq[bk as usize] = Some((Kind::K, Col::B));
                    let mut with = base.clone();
                    with.sq[s as usize] = Some((kind, c));
                    if with.sound().is_ok() && !with.in_check(Col::W) && !with.in_check(Col::B) {
                        found = Some((base, with));
                        break;
                    }
                }
                let (base, with) = found.ok_or(format!("no base board for {:?} {:?} on {}", c, kind, s))?;
                k.piece[c as usize][kind as usize][s as usize] = Some(hash_of(&with)? ^ hash_of(&base)?);
            }
        }
        // kings, relative to REF_SQ
        let r0 = REF_SQ[c as usize];
        for s in 0..64u8 {
            let o = (0..64u8).find(|&o| far(o, s) && far(o, r0) && o != s && o != r0).ok_or("no square for the other king")?;
            let mk = |ks: u8| {
                let mut p = Pos::empty();
                p.sq[ks as usize] = Some((Kind::K, c));
                p.sq[o as usize] = Some((Kind::K, c.other()));
                p
            };
            k.piece[c as usize][Kind::K as usize][s as usize] = Some(hash_of(&mk(s))? ^ hash_of(&mk(r0))?);
        }
        // castle keys per colour and file
        for f in 0..8u8 {
            let br = c.back_rank();
            let kf = if f == 0 { 4 } else { f - 1 };
            let wing = if f > kf { refmodel::SHORT } else { refmodel::LONG };
            let mut base = Pos::empty();
            base.sq[refmodel::sq(kf, br) as usize] = Some((Kind::K, c));
            base.sq[refmodel::sq(f, br) as usize] = Some((Kind::R, c));
            base.sq[refmodel::sq(if f == 7 { 5 } else { 7 }, c.rel_rank(6)) as usize] = Some((Kind::K, c.other()));
            base.stm = c;
            let mut with = base.clone();
            with.rights[c as usize][wing] = Some(f);
            k.castle[c as usize][f as usize] = hash_of(&with)? ^ hash_of(&base)?;
        }
    }
    for f in 0..8u8 {
        let mut base = Pos::empty();
        base.sq[0] = Some((Kind::K, Col::W));
        base.sq[63] = Some((Kind::K, Col::B));
        base.sq[refmodel::sq(f, 4) as usize] = Some((Kind::P, Col::B));
        if f == 7 {
            base.sq[63] = None;
            base.sq[56] = Some((Kind::K, Col::B));
        }
        let mut with = base.clone();
        with.ep = Some(refmodel::sq(f, 5));
        k.ep[f as usize] = hash_of(&with)? ^ hash_of(&base)?;
    }
    let mut base = Pos::empty();
    base.sq[REF_SQ[0] as usize] = Some((Kind::K, Col::W));
    base.sq[REF_SQ[1] as usize] = Some((Kind::K, Col::B));
    let mut black = base.clone();
    black.stm = Col::B;
    k.side = hash_of(&black)? ^ hash_of(&base)?;
    k.konst = hash_of(&base)?;
    Ok(k)
}

impl Keys {
    pub fn predict(&self, p: &Pos) -> Option<u64> {
        let mut h = self.konst;
        for s in 0..64usize {
            if let Some((kind, c)) = p.sq[s] {
                h ^= self.piece[c as usize][kind as usize][s]?;
            }
        }
        for c in 0..2 {
            for w in 0..2 {
                if let Some(f) = p.rights[c][w] {
                    h ^= self.castle[c][f as usize];
                }
            }
        }
        if let Some(e) = p.ep {
            h ^= self.ep[refmodel::file_of(e) as usize];
        }
        if p.stm == Col::B {
            h ^= self.side;
        }
        Some(h)
    }
    fn singles(&self) -> Vec<(u64, String)> {
        let mut v = Vec::new();
        for c in 0..2 {
            for kind in 0..5 {
                for s in 0..64 {
                    if let Some(x) = self.piece[c][kind][s] {
                        v.push((x, format!("piece(colour {}, kind {}, {})", c, kind, refmodel::sq_name(s as u8))));
                    }
                }
            }
            for f in 0..8 {
                v.push((self.castle[c][f], format!("castle(colour {}, file {})", c, f)));
            }
        }
        for f in 0..8 {
            v.push((self.ep[f], format!("ep(file {})", f)));
        }
        v.push((self.side, "side".into()));
        v
    }
    fn king_pairs(&self, c: usize) -> Vec<(u64, String)> {
        let mut v = Vec::new();
        for s in 0..64 {
            for t2 in s + 1..64 {
                let x = self.piece[c][5][s].unwrap() ^ self.piece[c][5][t2].unwrap();
                v.push((x, format!("king(colour {}, {}<->{})", c, refmodel::sq_name(s as u8), refmodel::sq_name(t2 as u8))));
            }
        }
        v
    }
}

/// complete decision over all realizable feature differences of size 1..4
fn decide(k: &Keys, sink: &Sink, t: &mut Tally) {
    let singles = k.singles();
    let n = singles.len();
    let viol = |sig: &str, what: String| sink.violation("C11.separate", sig, json!({"kind": "keys", "what": what}), format!("feature keys cancel: {}", what));
    // |D| = 1
    for (x, name) in &singles {
        t.validated += 1;
        if *x == 0 {
            viol("a single feature key is zero", name.clone());
        }
    }
    // pair table
    let mut t2: Vec<(u64, u32, u32)> = Vec::with_capacity(n * (n - 1) / 2);
    for i in 0..n {
        for j in i + 1..n {
            t2.push((singles[i].0 ^ singles[j].0, i as u32, j as u32));
        }
    }
    t2.par_sort_unstable();
    t.validated += t2.len() as u64;
    let mut s_sorted: Vec<(u64, usize)> = singles.iter().enumerate().map(|(i, (x, _))| (*x, i)).collect();
    s_sorted.sort_unstable();
    for w in t2.windows(2) {
        if w[0].0 == w[1].0 {
            // |D| = 4 (disjoint pairs) or two equal keys (shared index)
            viol("two pairs of feature keys have the same XOR (|D| = 4, or |D| = 2 when they share a key)", format!("{} ^ {} == {} ^ {}", singles[w[0].1 as usize].1, singles[w[0].2 as usize].1, singles[w[1].1 as usize].1, singles[w[1].2 as usize].1));
        }
    }
    for e in &t2 {
        if e.0 == 0 {
            viol("two feature keys are equal (|D| = 2)", format!("{} == {}", singles[e.1 as usize].1, singles[e.2 as usize].1));
        }
        if let Ok(pos) = s_sorted.binary_search_by(|p| p.0.cmp(&e.0)) {
            viol("XOR of two keys equals a third (|D| = 3)", format!("{} ^ {} == {}", singles[e.1 as usize].1, singles[e.2 as usize].1, singles[s_sorted[pos].1].1));
        }
    }
    // king moves: a king pair counts as two features
    let kp: Vec<Vec<(u64, String)>> = (0..2).map(|c| k.king_pairs(c)).collect();
    for c in 0..2 {
        for (x, name) in &kp[c] {
            t.validated += 1;
            if *x == 0 {
                viol("two king keys are equal (|D| = 2)", name.clone());
            }
            if let Ok(pos) = s_sorted.binary_search_by(|p| p.0.cmp(x)) {
                viol("king move cancels against one feature (|D| = 3)", format!("{} == {}", name, singles[s_sorted[pos].1].1));
            }
            if let Ok(pos) = t2.binary_search_by(|p| p.0.cmp(x)) {
                viol("king move cancels against two features (|D| = 4)", format!("{} == {} ^ {}", name, singles[t2[pos].1 as usize].1, singles[t2[pos].2 as usize].1));
            }
        }
    }
    let mut b_sorted: Vec<(u64, usize)> = kp[1].iter().enumerate().map(|(i, (x, _))| (*x, i)).collect();
    b_sorted.sort_unstable();
    for (x, name) in &kp[0] {
        t.validated += 1;
        if let Ok(pos) = b_sorted.binary_search_by(|p| p.0.cmp(x)) {
            viol("white king move cancels against black king move (|D| = 4)", format!("{} == {}", name, kp[1][b_sorted[pos].1].1));
        }
    }
    t.states += (n + t2.len() + kp[0].len() + kp[1].len()) as u64;
    t.evals = t.states;
    t.nontrivial = t.states;
    t.transitions += 2 * (n as u64 + 128);
    t.hit_n("non-king feature keys", n as u64);
    t.hit_n("pair-table entries", t2.len() as u64);
    t.hit_n("king-pair values", (kp[0].len() + kp[1].len()) as u64);
}

/// binding of the linear model to the code + the direct statements about moves
pub struct C11<'a> {
    keys: &'a Keys,
}
impl<'a> Monitor for C11<'a> {
    fn wants_frontier_edges(&self) -> bool {
        true
    }
    fn state(&self, v: &View, t: &mut Tally, s: &Sink) {
        t.validated += 1;
        match self.keys.predict(v.pos) {
            Some(h) => {
                if h != v.board.hash() {
                    s.violation("C11.linear", "hash is not the XOR of the extracted feature keys", v.case(), format!("hash() = {:#x}, XOR of the feature keys = {:#x} for {}", v.board.hash(), h, shredder(v.board)));
                }
            }
            None => t.hit("unpredictable (feature without key)"),
        }
        // variants of rights / ep that the library accepts must hash differently
        let mut variants: Vec<Pos> = Vec::new();
        for c in 0..2 {
            for w in 0..2 {
                if v.pos.rights[c][w].is_some() {
                    let mut p = v.pos.clone();
                    p.rights[c][w] = None;
                    variants.push(p);
                    for f in 0..8u8 {
                        if Some(f) != v.pos.rights[c][w] {
                            let mut p = v.pos.clone();
                            p.rights[c][w] = Some(f);
                            variants.push(p);
                        }
                    }
                }
            }
        }
        // a right the board does not have, on every file where a rook of that colour could carry it
        for (ci, c) in refmodel::Col::ALL.iter().enumerate() {
            if let Some(k) = v.pos.king_sq(*c) {
                if refmodel::rank_of(k) == c.back_rank() {
                    for f in 0..8u8 {
                        if v.pos.sq[refmodel::sq(f, c.back_rank()) as usize] == Some((Kind::R, *c)) {
                            let w = if f > refmodel::file_of(k) { refmodel::SHORT } else { refmodel::LONG };
                            if v.pos.rights[ci][w].is_none() {
                                let mut p = v.pos.clone();
                                p.rights[ci][w] = Some(f);
                                variants.push(p);
                            }
                        }
                    }
                }
            }
        }
        if v.pos.ep.is_some() {
            for f in 0..8u8 {
                let mut p = v.pos.clone();
                p.ep = Some(refmodel::sq(f, p.stm.rel_rank(5)));
                if p.ep != v.pos.ep {
                    variants.push(p);
                }
            }
            let mut p = v.pos.clone();
            p.ep = None;
            variants.push(p);
        }
        for p in variants {
            if let Ok(Ok(o)) = build(&p) {
                t.transitions += 1;
                t.validated += 1;
                if o.hash() == v.board.hash() {
                    s.violation("C11.variant", "boards differing only in a right / ep file collide", v.case(), format!("{} and {} have the same hash {:#x}", shredder(v.board), shredder(&o), o.hash()));
                }
            }
        }
    }
    fn edge(&self, v: &View, act: Act, child: &Result<Option<Board>, String>, t: &mut Tally, s: &Sink) {
        if let Ok(Some(c)) = child {
            t.validated += 1;
            if c.hash() == v.board.hash() {
                s.violation("C11.move", &format!("{} leaves the hash unchanged", if act == Act::Null { "null move" } else { "move" }), v.edge_case(act), format!("{} on {} leaves the hash at {:#x}", act.text(), shredder(v.board), c.hash()));
            }
        }
    }
}

pub fn run(run: &mut Run) {
    let q = run.quick();
    run.rule = "black-box extraction of every feature key from accepted boards (key = hash(base+feature) ^ hash(base)); linearity hash == XOR(keys) checked on every visited board; then a complete decision over ALL realizable feature differences of size 1..4 (0 or 2 king features per colour) via the sorted table of all pairwise XORs of the non-king keys plus all king-move values; plus directly: every explored move / null move changes the hash, every accepted right/ep variant of a visited board hashes differently".into();
    run.assume("the hash is a GF(2)-linear function of the feature set: not assumed but checked on every visited board (C11.linear); the complete decision is over keys extracted from the real library");
    run.assume("single king keys are not observable on accepted boards (exactly one king per colour): king features enter as the 2 x 2016 move values K(c,s)^K(c,t); castle keys are per colour and file");
    let keys = match extract() {
        Ok(k) => k,
        Err(e) => {
            println!("MACHINERY-ERROR C11: cannot extract feature keys: {}", e);
            std::process::exit(2);
        }
    };
    let t0 = Instant::now();
    let mut t = Tally::default();
    decide(&keys, &run.sink, &mut t);
    run.add("K-SEPARATION", json!({"feature_difference_sizes": [1, 2, 3, 4], "non_king_keys": keys.singles().len(), "king_move_values": 4032, "covers": "all subsets of 1..4 realizable features"}), true, t0, t);
    run.sink.sample(|| json!({"kind": "keys", "side_key": hex(keys.side), "ep_keys": keys.ep.iter().map(|x| hex(*x)).collect::<Vec<_>>(), "white_castle_keys": keys.castle[0].iter().map(|x| hex(*x)).collect::<Vec<_>>()}));
    let mon = C11 { keys: &keys };
    let mut plan = Plan::empty();
    let bd = |d, n| Bounds { depth: d, max_nulls: n };
    if q {
        plan.start = Some(bd(2, 1));
        plan.mid = Some(bd(2, 1));
        plan.r960 = Some(bd(0, 0));
        plan.walk = Some((120, 40, 2, 7, bd(0, 1)));
        plan.raws.push((Box::new(ThreeMen { bk: None }), bd(0, 0)));
        plan.raws.push((Box::new(Castle { extra: 1, ek_rank2: false }), bd(0, 0)));
        plan.raws.push((Box::new(EpUniverse::reduced()), bd(0, 0)));
        plan.lines = Some(bd(1, 1));
        plan.raws.push((Box::new(CastlePlay { visitors: vec![Kind::R] }), bd(3, 0)));
    } else {
        plan.lines = Some(bd(2, 1));
        plan.walk = Some((960, 60, 1, 7, bd(0, 1)));
        plan.raws.push((Box::new(CastlePlay { visitors: vec![Kind::R, Kind::Q, Kind::N] }), bd(3, 0)));
        plan.start = Some(bd(4, 1));
        plan.mid = Some(bd(3, 1));
        plan.r960 = Some(bd(1, 0));
        plan.dfrc = Some((0..960, 1, bd(0, 0)));
        plan.raws.push((Box::new(ThreeMen { bk: None }), bd(1, 1)));
        plan.raws.push((Box::new(Castle { extra: 2, ek_rank2: false }), bd(0, 0)));
        plan.raws.push((Box::new(EpUniverse::full()), bd(0, 0)));
        plan.raws.push((Box::new(FourMen { kings: Some(six_king_placements()), with_flags: true }), bd(0, 0)));
    }
    run_plan(run, &plan, &mon, &NoCand);
}

pub fn replay(case: &Value, sink: &Sink, t: &mut Tally) -> Result<(), String> {
    let keys = extract().map_err(|e| format!("MACHINERY: {}", e))?;
    if case["kind"] == "keys" {
        decide(&keys, sink, t);
        return Ok(());
    }
    let mon = C11 { keys: &keys };
    let body = json!({"case": case, "monitor": ""});
    // run the generic board replay into the caller's sink
    let kind = case["kind"].as_str().unwrap_or("");
    match kind {
        "state" => {
            crate::props::with_view(case, |v| mon.state(v, t, sink)).map_err(|e| format!("MACHINERY: {}", e))?;
        }
        "edge" => {
            let mut parent = case.clone();
            let mut path = case["path"].as_array().cloned().unwrap_or_default();
            let last = path.pop().ok_or("MACHINERY: edge without action")?;
            parent["path"] = Value::Array(path);
            let act = Act::parse(last.as_str().unwrap_or("")).ok_or("MACHINERY: bad action")?;
            crate::props::with_view(&parent, |v| {
                let child = match act {
                    Act::Move(_) => crate::explore::apply(v.board, act).map(Some),
                    Act::Null => guarded(|| v.board.null_move()),
                };
                mon.edge(v, act, &child, t, sink)
            })
            .map_err(|e| format!("MACHINERY: {}", e))?;
        }
        _ => return Err("MACHINERY: kind".into()),
    }
    let _ = body;
    Ok(())
}
