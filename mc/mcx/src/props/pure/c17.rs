use super::*;

const WINDOW: [u8; 12] = [0, 1, 7, 8, 27, 28, 36, 55, 56, 57, 62, 63];
const PROMOS: [Option<Piece>; 7] = [None, Some(Piece::Pawn), Some(Piece::Knight), Some(Piece::Bishop), Some(Piece::Rook), Some(Piece::Queen), Some(Piece::King)];

fn family(thorough: bool) -> Vec<u64> {
    let mut v = vec![0u64, !0u64, 0xFF000000000000FFu64, !0xFF000000000000FFu64];
    if thorough {
        // every set of three squares as well
        for a in 0..64 {
            for b in a + 1..64 {
                for c in b + 1..64 {
                    v.push((1u64 << a) | (1u64 << b) | (1u64 << c));
                }
            }
        }
    }
    for a in 0..64 {
        v.push(1u64 << a);
        for b in a + 1..64 {
            v.push((1u64 << a) | (1u64 << b));
        }
    }
    for sub in 0..(1u32 << 12) {
        let mut m = 0u64;
        for (i, &s) in WINDOW.iter().enumerate() {
            if sub >> i & 1 == 1 {
                m |= 1 << s;
            }
        }
        v.push(m);
    }
    v.sort_unstable();
    v.dedup();
    v
}

fn expected(piece: Piece, from: Square, to: u64) -> Vec<Move> {
    let mut out = Vec::new();
    for d in 0..64u8 {
        if to >> d & 1 == 1 {
            let promo = piece == Piece::Pawn && (d / 8 == 0 || d / 8 == 7);
            if promo {
                for p in [Piece::Knight, Piece::Bishop, Piece::Rook, Piece::Queen] {
                    out.push(Move { from, to: square_of(d), promotion: Some(p) });
                }
            } else {
                out.push(Move { from, to: square_of(d), promotion: None });
            }
        }
    }
    out
}

fn key(m: &Move) -> (u8, u8, u8) {
    (m.from as u8, m.to as u8, m.promotion.map_or(0, |p| 1 + p as u8))
}

/// `all_queries`: query all 64*64*7 moves, otherwise the 3 x 64 x 7 moves from {origin, origin^1, origin^56}
pub fn check_batch(piece: Piece, from: Square, to: u64, all_queries: bool, sink: &Sink, t: &mut Tally) {
    let case = || json!({"piece": format!("{:?}", piece), "from": from as u8, "to": hex(to), "all_queries": all_queries});
    let pm = PieceMoves { piece, from, to: BitBoard(to) };
    let want = expected(piece, from, to);
    t.states += 1;
    t.evals += 1;
    if piece == Piece::Pawn && to & 0xFF000000000000FF != 0 {
        t.nontrivial += 1;
        t.hit(if to & !0xFF000000000000FF != 0 { "pawn batch: promotion and plain destinations" } else { "pawn batch: promotion destinations only" });
    } else if piece == Piece::Pawn {
        t.hit("pawn batch: plain destinations only");
    } else {
        t.hit("non-pawn batch");
    }
    let r = guarded(|| {
        let mut problems: Vec<(&'static str, String)> = Vec::new();
        if pm.len() != want.len() {
            problems.push(("len", format!("len() = {}, enumeration has {}", pm.len(), want.len())));
        }
        if pm.is_empty() != want.is_empty() {
            problems.push(("is_empty", format!("is_empty() = {}, enumeration has {}", pm.is_empty(), want.len())));
        }
        let mut it = pm.into_iter();
        let mut got: Vec<Move> = Vec::with_capacity(want.len());
        loop {
            let remaining = want.len().saturating_sub(got.len());
            if it.len() != remaining || it.size_hint() != (remaining, Some(remaining)) {
                problems.push(("iter.len", format!("after {} items: iter.len() = {}, size_hint = {:?}, really remaining {}", got.len(), it.len(), it.size_hint(), remaining)));
                break;
            }
            match it.next() {
                Some(m) => got.push(m),
                None => break,
            }
            if got.len() > want.len() + 4 {
                break;
            }
        }
        let mut gs: Vec<_> = got.iter().map(key).collect();
        gs.sort_unstable();
        let mut ws: Vec<_> = want.iter().map(key).collect();
        ws.sort_unstable();
        if gs != ws {
            problems.push(("iteration", format!("iteration yields {} moves {:?}..., expected {} moves", got.len(), got.iter().take(6).map(|m| m.to_string()).collect::<Vec<_>>(), want.len())));
        }
        // the provided Iterator consumers must agree with next() from every partially consumed
        // state (count, last, nth, fold / for_each)
        if want.len() <= 64 {
            let mut it2 = pm.into_iter();
            for k in 0..=got.len().min(want.len()) {
                if k <= 6 || k + 2 >= want.len() {
                    let rest: Vec<(u8, u8, u8)> = got.iter().skip(k).map(key).collect();
                    // PieceMovesIter is not Clone: a fresh iterator in the same state = a new iterator
                    // of the same batch advanced by the same number of next() calls
                    struct Fresh(PieceMoves, usize);
                    impl Fresh {
                        fn fresh(&self) -> PieceMovesIter {
                            let mut f = self.0.into_iter();
                            for _ in 0..self.1 {
                                f.next();
                            }
                            f
                        }
                    }
                    let base = Fresh(pm, k);
                    if base.fresh().count() != rest.len() {
                        problems.push(("consumers", format!("after {} next(): count() = {}, next() yields {} more", k, base.fresh().count(), rest.len())));
                    }
                    if base.fresh().last().map(|m| key(&m)) != rest.last().copied() {
                        problems.push(("consumers", format!("after {} next(): last() disagrees with next()", k)));
                    }
                    let mut folded: Vec<(u8, u8, u8)> = Vec::with_capacity(rest.len());
                    base.fresh().for_each(|m| folded.push(key(&m)));
                    if folded != rest {
                        problems.push(("consumers", format!("after {} next(): for_each delivers {} moves, next() delivers {}", k, folded.len(), rest.len())));
                    }
                    for n in [0usize, 1, 3, rest.len().saturating_sub(1), rest.len(), rest.len() + 1, 1 << 32, (1usize << 32) + 1, usize::MAX] {
                        let w = rest.get(n).copied();
                        if base.fresh().nth(n).map(|m| key(&m)) != w {
                            problems.push(("consumers", format!("after {} next(): nth({}) disagrees with next()", k, n)));
                            break;
                        }
                    }
                    // ... and must leave the iterator in the state that many next() calls leave it in
                    for n in [0usize, 1, 2, 3, 4, 5, rest.len().saturating_sub(2)] {
                        if n >= rest.len() {
                            continue;
                        }
                        let mut f = base.fresh();
                        let _ = f.nth(n);
                        let after = &rest[n + 1..];
                        if f.len() != after.len() || f.size_hint() != (after.len(), Some(after.len())) {
                            problems.push(("consumers", format!("after {} next() and nth({}): len() = {}, size_hint = {:?}, really remaining {}", k, n, f.len(), f.size_hint(), after.len())));
                            break;
                        }
                        let tail: Vec<(u8, u8, u8)> = f.map(|m| key(&m)).collect();
                        if tail != after {
                            problems.push(("consumers", format!("after {} next() and nth({}): the rest of the iteration has {} moves, next() alone leaves {}", k, n, tail.len(), after.len())));
                            break;
                        }
                    }
                    for st in [1usize, 2, 3, 5] {
                        let got: Vec<(u8, u8, u8)> = base.fresh().step_by(st).map(|m| key(&m)).collect();
                        let want_s: Vec<(u8, u8, u8)> = rest.iter().copied().step_by(st).collect();
                        let got2: Vec<(u8, u8, u8)> = base.fresh().skip(st).map(|m| key(&m)).collect();
                        let want2: Vec<(u8, u8, u8)> = rest.iter().copied().skip(st).collect();
                        if got != want_s || got2 != want2 {
                            problems.push(("consumers", format!("after {} next(): step_by({}) / skip({}) disagree with next()", k, st, st)));
                            break;
                        }
                    }
                }
                if it2.next().is_none() {
                    break;
                }
            }
        }
        // membership
        let froms: Vec<u8> = if all_queries { (0..64).collect() } else { vec![from as u8, from as u8 ^ 1, from as u8 ^ 56] };
        let mut queries = 0u64;
        for &f in &froms {
            for d in 0..64u8 {
                for p in PROMOS {
                    let m = Move { from: square_of(f), to: square_of(d), promotion: p };
                    queries += 1;
                    let w = ws.binary_search(&key(&m)).is_ok();
                    if pm.has(m) != w {
                        let cls = match p {
                            None => "no promotion",
                            Some(Piece::King) | Some(Piece::Pawn) => "king/pawn promotion",
                            _ => "NBRQ promotion",
                        };
                        problems.push(("has", format!("has({}{}) = {}, but iteration {} it [{}]", m, p.map_or(String::new(), |p| format!(" promo {:?}", p)), !w, if w { "yields" } else { "does not yield" }, cls)));
                        if problems.len() > 6 {
                            return (problems, queries);
                        }
                    }
                }
            }
        }
        (problems, queries)
    });
    match r {
        Err(e) => sink.violation("C17.panic", "PieceMoves operation panicked", case(), e),
        Ok((problems, q)) => {
            t.transitions += q + 3;
            t.validated += q + 3;
            for (what, d) in problems {
                let sig = if what == "has" { format!("has:{}", d.rsplit('[').next().unwrap_or("")) } else { what.to_string() };
                sink.violation(&format!("C17.{}", what), &sig, case(), format!("PieceMoves {{ {:?}, {}, {:#x} }}: {}", piece, from, to, d));
            }
        }
    }
}

pub fn run(run: &mut Run) {
    let thorough = !run.quick();
    let fam = family(thorough);
    run.rule = "6 pieces x 64 origins x destination family {empty, full, ranks 1+8 and complement, all sets of <=2 squares (thorough: <=3), all 4096 subsets of a 12-square window mixing first-rank, eighth-rank and inner squares}; per batch: len, is_empty, iteration as a multiset, iter.len/size_hint after every next, and has() for the 3x64x7 moves from {origin, origin^1, origin^56} (thorough: all 64x64x7 moves when |to| <= 2). non-trivial = pawn batch containing a promotion-rank destination".into();
    run.assume("2^64 destination sets are not enumerated: the family contains every set of at most two squares and every subset of a 12-square window; PieceMoves operations act per destination square");
    let t0 = Instant::now();
    let t: Tally = (0..6 * 64usize)
        .into_par_iter()
        .fold(Tally::default, |mut t, i| {
            let piece = Piece::ALL[i / 64];
            let from = square_of((i % 64) as u8);
            for &to in &fam {
                let all = thorough && to.count_ones() <= 2 && (i % 64) % 9 == 0;
                check_batch(piece, from, to, all, &run.sink, &mut t);
            }
            t
        })
        .reduce(Tally::default, Tally::merge);
    run.add("P-PIECEMOVES", json!({"pieces": 6, "origins": 64, "destination_sets": fam.len(), "queries_per_batch": "1344 (thorough: 28672 for |to|<=2 on 8 origins per piece)"}), true, t0, t);
    run.sink.sample(|| json!({"piece": "Pawn", "from": 48, "to": hex(1 << 56), "expected_iteration": ["a7a8n", "a7a8b", "a7a8r", "a7a8q"], "expected_has(a7a8k)": false}));
}

pub fn replay(case: &Value, sink: &Sink, t: &mut Tally) -> Result<(), String> {
    let piece = match case["piece"].as_str().unwrap_or("") {
        "Pawn" => Piece::Pawn,
        "Knight" => Piece::Knight,
        "Bishop" => Piece::Bishop,
        "Rook" => Piece::Rook,
        "Queen" => Piece::Queen,
        "King" => Piece::King,
        _ => return Err("MACHINERY: piece".into()),
    };
    let from = square_of(case["from"].as_u64().ok_or("MACHINERY: from")? as u8);
    check_batch(piece, from, unhex(&case["to"])?, case["all_queries"].as_bool().unwrap_or(false), sink, t);
    Ok(())
}
