use super::*;
use std::convert::TryFrom;
use std::fmt::Display;
use std::str::FromStr;

fn offsets(sink: &Sink) -> Tally {
    (0..64u8)
        .into_par_iter()
        .fold(Tally::default, |mut t, s| {
            let q = square_of(s);
            let (f, r) = (refmodel::file_of(s) as i32, refmodel::rank_of(s) as i32);
            for df in -128i32..=127 {
                for dr in -128i32..=127 {
                    t.states += 1;
                    t.evals += 1;
                    t.transitions += 1;
                    t.validated += 1;
                    let (nf, nr) = (f + df, r + dr);
                    let want = if (0..8).contains(&nf) && (0..8).contains(&nr) { Some((nr * 8 + nf) as u8) } else { None };
                    if want.is_some() {
                        t.nontrivial += 1;
                    }
                    let got = guarded(|| q.try_offset(df as i8, dr as i8).map(sq_of));
                    let case = || json!({"fn": "try_offset", "sq": s, "df": df, "dr": dr});
                    match got {
                        Ok(g) if g == want => {}
                        Ok(g) => sink.violation("C19.try_offset", "wrong result", case(), format!("{}.try_offset({}, {}) = {:?}, arithmetic says {:?}", q, df, dr, g, want)),
                        Err(e) => sink.violation("C19.try_offset", "panicked", case(), format!("{}.try_offset({}, {}) panicked: {}", q, df, dr, e)),
                    }
                    // the panicking variant, for every offset pair as well (an out-of-range pair
                    // must panic - in every build profile)
                    {
                        t.transitions += 1;
                        let go = guarded(|| sq_of(q.offset(df as i8, dr as i8)));
                        match (go, want) {
                            (Ok(g), Some(w)) if g == w => {}
                            (Err(_), None) => {}
                            (g, w) => sink.violation("C19.offset", "offset disagrees with arithmetic", json!({"fn": "offset", "sq": s, "df": df, "dr": dr}), format!("{}.offset({}, {}) -> {:?}, arithmetic says {:?}", q, df, dr, g, w)),
                        }
                    }
                }
            }
            t
        })
        .reduce(Tally::default, Tally::merge)
}

fn coords(sink: &Sink) -> Tally {
    let mut t = Tally::default();
    let bad = |what: &str, detail: String| sink.violation("C19.coords", what, json!({"fn": "coords", "what": what}), detail);
    for s in 0..64u8 {
        t.states += 1;
        let q = square_of(s);
        let (f, r) = (refmodel::file_of(s), refmodel::rank_of(s));
        if q.file() as u8 != f || q.rank() as u8 != r {
            bad("file/rank", format!("{:?}: file {:?} rank {:?}", q, q.file(), q.rank()));
        }
        if Square::new(File::index(f as usize), Rank::index(r as usize)) != q {
            bad("Square::new", format!("Square::new({}, {}) != {:?}", f, r, q));
        }
        if sq_of(q.flip_file()) != refmodel::sq(7 - f, r) || sq_of(q.flip_rank()) != refmodel::sq(f, 7 - r) {
            bad("flip", format!("{:?} flips to {:?} / {:?}", q, q.flip_file(), q.flip_rank()));
        }
        if q.relative_to(Color::White) != q || sq_of(q.relative_to(Color::Black)) != refmodel::sq(f, 7 - r) {
            bad("Square::relative_to", format!("{:?}", q));
        }
        if q.bitboard().0 != 1u64 << s {
            bad("Square::bitboard", format!("{:?}", q));
        }
        t.validated += 6;
    }
    for i in 0..8usize {
        t.states += 1;
        let (f, r) = (File::index(i), Rank::index(i));
        if f as usize != i || r as usize != i || f.flip() as usize != 7 - i || r.flip() as usize != 7 - i {
            bad("File/Rank index/flip", format!("index {}", i));
        }
        if r.relative_to(Color::White) != r || r.relative_to(Color::Black) as usize != 7 - i {
            bad("Rank::relative_to", format!("rank {}", i));
        }
        let fb: u64 = (0..8).map(|rr| 1u64 << (rr * 8 + i)).sum();
        let rb: u64 = 0xFFu64 << (8 * i);
        if f.bitboard().0 != fb || r.bitboard().0 != rb {
            bad("File/Rank bitboard", format!("index {}", i));
        }
        let mut adj = 0u64;
        if i > 0 {
            adj |= fb >> 1;
        }
        if i < 7 {
            adj |= fb << 1;
        }
        if f.adjacent().0 != adj {
            bad("File::adjacent", format!("file {}", i));
        }
        t.validated += 4;
    }
    // index / try_index / index_const for indices 0..1024 and usize::MAX
    let idxs: Vec<usize> = (0..1024usize).chain([usize::MAX, usize::MAX - 1, 1 << 32]).collect();
    for &i in &idxs {
        t.states += 1;
        macro_rules! chk {
            ($ty:ident, $n:expr) => {{
                let want = i < $n;
                let ti = guarded(|| $ty::try_index(i));
                match ti {
                    Ok(Some(v)) if want && v as usize == i => {}
                    Ok(None) if !want => {}
                    other => bad(concat!(stringify!($ty), "::try_index"), format!("try_index({}) -> {:?}", i, other.map(|o| o.map(|v| v as usize)))),
                }
                let pi = guarded(|| $ty::index(i) as usize);
                if pi.is_ok() != want || (want && pi != Ok(i)) {
                    bad(concat!(stringify!($ty), "::index"), format!("index({}) -> {:?}", i, pi));
                }
                let ci = guarded(|| $ty::index_const(i) as usize);
                if ci.is_ok() != want || (want && ci != Ok(i)) {
                    bad(concat!(stringify!($ty), "::index_const"), format!("index_const({}) -> {:?}", i, ci));
                }
                t.validated += 3;
                t.transitions += 3;
            }};
        }
        chk!(Square, 64);
        chk!(File, 8);
        chk!(Rank, 8);
        chk!(Piece, 6);
        chk!(Color, 2);
    }
    t.evals = t.states;
    t.nontrivial = 64 + 8;
    t
}

/// accepted text must format back to itself; every value must survive format -> parse
fn text_case<T: FromStr + Display + PartialEq + Copy>(ty: &'static str, text: &str, sink: &Sink, t: &mut Tally) {
    t.transitions += 1;
    t.validated += 1;
    let r = guarded(|| text.parse::<T>().ok().map(|v| format!("{}", v)));
    match r {
        Err(e) => sink.violation("C19.parse", &format!("{} parser panicked", ty), json!({"fn": "parse", "type": ty, "text": text}), format!("{}::from_str({:?}) panicked: {}", ty, text, e)),
        Ok(None) => t.hit("rejected"),
        Ok(Some(back)) => {
            t.hit("accepted");
            if back != text {
                let sig = if text.len() > back.len() && text.starts_with(&back) { "accepted text with trailing characters / dropped suffix" } else { "accepted text formats differently" };
                sink.violation("C19.parse", &format!("{}: {}", ty, sig), json!({"fn": "parse", "type": ty, "text": text}), format!("{}::from_str({:?}) is accepted but formats back as {:?}", ty, text, back));
            }
        }
    }
}

fn all_types(text: &str, sink: &Sink, t: &mut Tally) {
    text_case::<Square>("Square", text, sink, t);
    text_case::<File>("File", text, sink, t);
    text_case::<Rank>("Rank", text, sink, t);
    text_case::<Piece>("Piece", text, sink, t);
    text_case::<Color>("Color", text, sink, t);
    text_case::<Move>("Move", text, sink, t);
}

fn strings_over(alphabet: &[char], max_len: usize, f: &mut dyn FnMut(&str)) {
    fn rec(alphabet: &[char], left: usize, cur: &mut String, f: &mut dyn FnMut(&str)) {
        f(cur);
        if left == 0 {
            return;
        }
        for &c in alphabet {
            cur.push(c);
            rec(alphabet, left - 1, cur, f);
            cur.pop();
        }
    }
    rec(alphabet, max_len, &mut String::new(), f);
}

pub const ALPHA40: &[char] = &[
    'a', 'b', 'c', 'd', 'e', 'f', 'g', 'h', '1', '2', '3', '4', '5', '6', '7', '8', 'p', 'n', 'r', 'q', 'k', 'w', 'A', 'H', 'K', 'Q', 'N', 'P', '0', '9', ' ', '-', '+', 'x', '=', '#', 'O', '/', 'é',
    '\u{0}',
];
const MOVE11: &[char] = &['a', 'h', '1', '8', 'q', 'k', 'n', 'p', 'é', ' ', 'x'];

fn chars(sink: &Sink) -> Tally {
    (0..0x110000u32)
        .into_par_iter()
        .fold(Tally::default, |mut t, u| {
            let c = match char::from_u32(u) {
                Some(c) => c,
                None => return t,
            };
            t.states += 1;
            t.evals += 1;
            macro_rules! chk {
                ($ty:ident, $name:expr) => {{
                    t.transitions += 1;
                    t.validated += 1;
                    match guarded(|| $ty::try_from(c).ok().map(|v| char::from(v))) {
                        Err(e) => sink.violation("C19.char", concat!($name, " TryFrom<char> panicked"), json!({"fn": "char", "type": $name, "code": u}), e),
                        Ok(Some(back)) => {
                            t.nontrivial += 1;
                            if back != c {
                                sink.violation("C19.char", concat!($name, " accepts a char that converts back differently"), json!({"fn": "char", "type": $name, "code": u}), format!("{}::try_from({:?}) accepted, converts back to {:?}", $name, c, back));
                            }
                        }
                        Ok(None) => {}
                    }
                }};
            }
            chk!(File, "File");
            chk!(Rank, "Rank");
            chk!(Piece, "Piece");
            chk!(Color, "Color");
            // single-character strings through FromStr as well
            let mut buf = [0u8; 4];
            all_types(c.encode_utf8(&mut buf), sink, &mut t);
            t
        })
        .reduce(Tally::default, Tally::merge)
}

/// Valid texts with ONE position replaced by every Unicode scalar value: catches parsers that look
/// at bytes / truncated code points instead of characters.
fn unicode_templates(sink: &Sink) -> Tally {
    let templates: [(&str, u8); 6] = [("e2e4", 0), ("a7a8q", 0), ("h1", 1), ("e", 2), ("4", 3), ("q", 4)];
    (0..0x110000u32)
        .into_par_iter()
        .fold(Tally::default, |mut t, u| {
            let c = match char::from_u32(u) {
                Some(c) => c,
                None => return t,
            };
            for (tpl, ty) in templates {
                let chars: Vec<char> = tpl.chars().collect();
                for pos in 0..=chars.len() {
                    // substitution at pos (when pos < len) and insertion at pos
                    let mut variants: Vec<String> = Vec::with_capacity(2);
                    if pos < chars.len() {
                        let mut v = chars.clone();
                        v[pos] = c;
                        variants.push(v.iter().collect());
                    }
                    let mut v = chars.clone();
                    v.insert(pos, c);
                    variants.push(v.iter().collect());
                    for text in variants {
                        t.states += 1;
                        t.evals += 1;
                        match ty {
                            0 => text_case::<Move>("Move", &text, sink, &mut t),
                            1 => text_case::<Square>("Square", &text, sink, &mut t),
                            2 => text_case::<File>("File", &text, sink, &mut t),
                            3 => text_case::<Rank>("Rank", &text, sink, &mut t),
                            _ => {
                                text_case::<Piece>("Piece", &text, sink, &mut t);
                                text_case::<Color>("Color", &text, sink, &mut t);
                            }
                        }
                    }
                }
            }
            t
        })
        .reduce(Tally::default, Tally::merge)
}

/// Valid texts padded to great lengths: a valid text followed or preceded by 1..=1100 copies of a
/// pad character (and by 2^k - len +- 2 copies up to 2^17): lengths that wrap in a narrow integer
/// must not turn a long string into an accepted value.
fn padded_texts(sink: &Sink) -> Tally {
    let bases: [&str; 8] = ["e2e4", "a7a8q", "h1", "e", "4", "q", "w", "b"];
    let pads: [char; 6] = [' ', '0', 'a', '\u{e9}', '\u{20ac}', '\u{1f600}'];
    let jobs: Vec<(usize, usize)> = (0..bases.len()).flat_map(|b| (0..pads.len()).map(move |p| (b, p))).collect();
    jobs.par_iter()
        .fold(Tally::default, |mut t, &(bi, pi)| {
            let base = bases[bi];
            let pad = pads[pi];
            let mut counts: Vec<usize> = (1..=1100).collect();
            for k in 11..=17u32 {
                for d in 0..=8usize {
                    counts.push(((1usize << k) + 4).saturating_sub(d) / pad.len_utf8());
                }
            }
            for n in counts {
                let run: String = std::iter::repeat(pad).take(n).collect();
                for text in [format!("{}{}", base, run), format!("{}{}", run, base), format!("{}{}{}", base, run, base)] {
                    t.states += 1;
                    t.evals += 1;
                    all_types(&text, sink, &mut t);
                }
            }
            t
        })
        .reduce(Tally::default, Tally::merge)
}

fn values(sink: &Sink) -> Tally {
    // every value with a legal shape survives format -> parse
    let mut t = Tally::default();
    macro_rules! rt {
        ($ty:ident, $v:expr) => {{
            t.states += 1;
            t.transitions += 1;
            t.validated += 1;
            let v = $v;
            let txt = format!("{}", v);
            match guarded(|| txt.parse::<$ty>().ok()) {
                Ok(Some(b)) if b == v => {}
                other => sink.violation("C19.roundtrip", concat!(stringify!($ty), " does not survive format/parse"), json!({"fn": "roundtrip", "type": stringify!($ty), "text": txt}), format!("{:?} formats as {:?} which parses to {:?}", v, txt, other)),
            }
        }};
    }
    for q in Square::ALL {
        rt!(Square, q);
    }
    for f in File::ALL {
        rt!(File, f);
    }
    for r in Rank::ALL {
        rt!(Rank, r);
    }
    for p in Piece::ALL {
        rt!(Piece, p);
    }
    for c in Color::ALL {
        rt!(Color, c);
    }
    for from in Square::ALL {
        for to in Square::ALL {
            for promotion in [None, Some(Piece::Knight), Some(Piece::Bishop), Some(Piece::Rook), Some(Piece::Queen)] {
                rt!(Move, Move { from, to, promotion });
            }
        }
    }
    t.evals = t.states;
    t.nontrivial = t.states;
    t
}

fn short_strings(thorough: bool, sink: &Sink) -> Tally {
    let jobs: Vec<(usize, char)> = ALPHA40.iter().map(|&c| (0usize, c)).chain(MOVE11.iter().map(|&c| (1usize, c))).collect();
    jobs.par_iter()
        .fold(Tally::default, |mut t, &(which, first)| {
            let (alpha, max) = if which == 0 { (ALPHA40, if thorough { 4usize } else { 3 }) } else { (MOVE11, if thorough { 7 } else { 6 }) };
            // strings starting with `first` (the empty string is covered once, below)
            let mut cur = String::new();
            cur.push(first);
            let mut f = |s: &str| {
                t.states += 1;
                t.evals += 1;
                if which == 0 {
                    all_types(s, sink, &mut t);
                } else {
                    text_case::<Move>("Move", s, sink, &mut t);
                    text_case::<Square>("Square", s, sink, &mut t);
                }
            };
            fn rec(alphabet: &[char], left: usize, cur: &mut String, f: &mut dyn FnMut(&str)) {
                f(cur);
                if left == 0 {
                    return;
                }
                for &c in alphabet {
                    cur.push(c);
                    rec(alphabet, left - 1, cur, f);
                    cur.pop();
                }
            }
            rec(alpha, max - 1, &mut cur, &mut f);
            t
        })
        .reduce(Tally::default, Tally::merge)
}

pub fn run(run: &mut Run) {
    let thorough = !run.quick();
    run.rule = "64 squares x all 256x256 (i8,i8) offset pairs through try_offset and the panicking offset (which must panic exactly on the out-of-range pairs); all coordinate constructors/decompositions/flips; index functions on 0..1024 and extreme values; TryFrom<char> for every Unicode scalar value; FromStr of Square/File/Rank/Piece/Color/Move on every string of length <=3 over a 40-symbol alphabet, every single-character string, and every string of length <=6 (thorough 7) over an 11-symbol move alphabet; format->parse of every legal-shape value. non-trivial = in-range offsets / accepted chars".into();
    run.assume("'all Unicode strings' is restricted to the enumerated string families; the overflow-checked and the release profile are both run (configurations magic-chk and magic-rel)");
    if run.config == "magic-chk" {
        run.assume("this configuration has overflow-checks = true and debug-assertions = true");
    }
    let t0 = Instant::now();
    let t = offsets(&run.sink);
    run.add("P-OFFSETS", json!({"squares": 64, "file_offsets": 256, "rank_offsets": 256}), true, t0, t);
    let t0 = Instant::now();
    let t = coords(&run.sink);
    run.add("P-COORDS", json!({"squares": 64, "files": 8, "ranks": 8, "indices": "0..1024, usize::MAX, usize::MAX-1, 2^32"}), true, t0, t);
    let t0 = Instant::now();
    let t = chars(&run.sink);
    run.add("T-CHARS", json!({"unicode_scalar_values": 1112064}), true, t0, t);
    let t0 = Instant::now();
    let t = unicode_templates(&run.sink);
    run.add("T-UNITEMPLATE", json!({"templates": ["e2e4", "a7a8q", "h1", "e", "4", "q"], "edit": "every position substituted by / inserted with every Unicode scalar value"}), true, t0, t);
    let t0 = Instant::now();
    let t = padded_texts(&run.sink);
    run.add("T-PAD", json!({"bases": ["e2e4", "a7a8q", "h1", "e", "4", "q", "w", "b"], "pad_characters": "space 0 a U+E9 U+20AC U+1F600 (1 to 4 bytes)", "pad_counts": "1..=1100 and the byte lengths 2^k + 4 - d (k = 11..17, d = 0..8)", "position": "after, before, between two copies", "types": 6}), true, t0, t);
    let t0 = Instant::now();
    let t = values(&run.sink);
    run.add("P-VALUES", json!({"moves": 64 * 64 * 5}), true, t0, t);
    let t0 = Instant::now();
    let mut t = short_strings(thorough, &run.sink);
    all_types("", &run.sink, &mut t);
    run.add("T-SHORT", json!({"alphabet40_max_len": if thorough { 4 } else { 3 }, "alphabet11_max_len": if thorough { 7 } else { 6 }}), true, t0, t);
    run.sink.sample(|| json!({"fn": "try_offset", "sq": 7, "df": 127, "dr": 0, "expected": null}));
    run.sink.sample(|| json!({"fn": "parse", "type": "Move", "text": "a1h8q"}));
    let _ = strings_over;
}

pub fn replay(case: &Value, sink: &Sink, t: &mut Tally) -> Result<(), String> {
    match case["fn"].as_str().unwrap_or("") {
        "try_offset" | "offset" => {
            let s = case["sq"].as_u64().ok_or("MACHINERY: sq")? as u8;
            let df = case["df"].as_i64().ok_or("MACHINERY: df")? as i32;
            let dr = case["dr"].as_i64().ok_or("MACHINERY: dr")? as i32;
            let q = square_of(s);
            let (nf, nr) = (refmodel::file_of(s) as i32 + df, refmodel::rank_of(s) as i32 + dr);
            let want = if (0..8).contains(&nf) && (0..8).contains(&nr) { Some((nr * 8 + nf) as u8) } else { None };
            if case["fn"] == "try_offset" {
                match guarded(|| q.try_offset(df as i8, dr as i8).map(sq_of)) {
                    Ok(g) if g == want => {}
                    Ok(g) => sink.violation("C19.try_offset", "wrong result", case.clone(), format!("try_offset -> {:?}, want {:?}", g, want)),
                    Err(e) => sink.violation("C19.try_offset", "panicked", case.clone(), format!("{}.try_offset({}, {}) panicked: {}", q, df, dr, e)),
                }
            } else {
                match (guarded(|| sq_of(q.offset(df as i8, dr as i8))), want) {
                    (Ok(g), Some(w)) if g == w => {}
                    (Err(_), None) => {}
                    (g, w) => sink.violation("C19.offset", "offset disagrees with arithmetic", case.clone(), format!("{:?} vs {:?}", g, w)),
                }
            }
        }
        "parse" => {
            let text = case["text"].as_str().ok_or("MACHINERY: text")?;
            match case["type"].as_str().unwrap_or("") {
                "Square" => text_case::<Square>("Square", text, sink, t),
                "File" => text_case::<File>("File", text, sink, t),
                "Rank" => text_case::<Rank>("Rank", text, sink, t),
                "Piece" => text_case::<Piece>("Piece", text, sink, t),
                "Color" => text_case::<Color>("Color", text, sink, t),
                "Move" => text_case::<Move>("Move", text, sink, t),
                _ => return Err("MACHINERY: type".into()),
            }
        }
        "coords" => {
            let tt = coords(sink);
            t.absorb(tt);
        }
        "char" => {
            let tt = chars(sink);
            t.absorb(tt);
        }
        "roundtrip" => {
            let tt = values(sink);
            t.absorb(tt);
        }
        _ => return Err("MACHINERY: unknown fn".into()),
    }
    Ok(())
}
