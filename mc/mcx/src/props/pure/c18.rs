use super::*;

type Set = [bool; 64];

fn to_set(x: u64) -> Set {
    let mut s = [false; 64];
    for i in 0..64 {
        s[i] = x >> i & 1 == 1;
    }
    s
}
fn from_set(s: &Set) -> u64 {
    let mut x = 0u64;
    for i in 0..64 {
        if s[i] {
            x |= 1 << i;
        }
    }
    x
}

const W1: [u8; 12] = [0, 1, 7, 8, 9, 27, 28, 35, 36, 55, 56, 63];
const W2: [u8; 12] = [2, 5, 10, 17, 24, 31, 32, 39, 46, 53, 58, 61];

fn family(thorough: bool) -> Vec<u64> {
    let mut v = vec![0u64, !0u64];
    for a in 0..64 {
        v.push(1u64 << a);
        v.push(!(1u64 << a));
        for b in a + 1..64 {
            let m = (1u64 << a) | (1u64 << b);
            v.push(m);
            if thorough {
                v.push(!m);
            }
        }
    }
    if thorough {
        // every set of three squares from a 24-square spread (2024 sets) and their complements
        let spread: Vec<u8> = (0..64u8).filter(|&s| (s as u32 * 7 + s as u32 / 8) % 8 < 3).collect();
        for a in 0..spread.len() {
            for b in a + 1..spread.len() {
                for c in b + 1..spread.len() {
                    let m = (1u64 << spread[a]) | (1u64 << spread[b]) | (1u64 << spread[c]);
                    v.push(m);
                    v.push(!m);
                }
            }
        }
    }
    let windows: &[[u8; 12]] = if thorough { &[W1, W2] } else { &[W1] };
    for w in windows {
        for sub in 0..(1u32 << 12) {
            let mut m = 0u64;
            for (i, &s) in w.iter().enumerate() {
                if sub >> i & 1 == 1 {
                    m |= 1 << s;
                }
            }
            v.push(m);
        }
    }
    // every union of ranks and every union of files (dense, structured sets of every size 8k)
    for m in 0..256u64 {
        let mut ranks = 0u64;
        let mut files = 0u64;
        for i in 0..8 {
            if m >> i & 1 == 1 {
                ranks |= 0xFFu64 << (8 * i);
                files |= 0x0101010101010101u64 << i;
            }
        }
        v.push(ranks);
        v.push(files);
    }
    for f in File::ALL {
        v.push(f.bitboard().0);
        v.push(f.adjacent().0);
    }
    for r in Rank::ALL {
        v.push(r.bitboard().0);
    }
    v.extend([BitBoard::EDGES.0, BitBoard::CORNERS.0, BitBoard::DARK_SQUARES.0, BitBoard::LIGHT_SQUARES.0, BitBoard::EMPTY.0, BitBoard::FULL.0]);
    v.sort_unstable();
    v.dedup();
    v
}

fn bad(sink: &Sink, what: &str, case: Value, detail: String) {
    sink.violation(&format!("C18.{}", what.split(':').next().unwrap()), what, case, detail);
}

pub fn check_pair(a: u64, b: u64, sa: &Set, sb: &Set, sink: &Sink, t: &mut Tally) {
    let (ba, bb) = (BitBoard(a), BitBoard(b));
    let case = || json!({"kind": "pair", "a": hex(a), "b": hex(b)});
    let mut and = [false; 64];
    let mut or = [false; 64];
    let mut xor = [false; 64];
    let mut sub = [false; 64];
    let (mut subset, mut disjoint, mut superset) = (true, true, true);
    for i in 0..64 {
        and[i] = sa[i] && sb[i];
        or[i] = sa[i] || sb[i];
        xor[i] = sa[i] != sb[i];
        sub[i] = sa[i] && !sb[i];
        if sa[i] && !sb[i] {
            subset = false;
        }
        if sb[i] && !sa[i] {
            superset = false;
        }
        if sa[i] && sb[i] {
            disjoint = false;
        }
    }
    t.transitions += 11;
    t.validated += 11;
    let r = guarded(|| {
        let mut p: Vec<(&'static str, String)> = Vec::new();
        let mut chk = |name: &'static str, got: u64, want: &Set| {
            if got != from_set(want) {
                p.push((name, format!("{} gives {:#x}, set operation gives {:#x}", name, got, from_set(want))));
            }
        };
        chk("operator:&", (ba & bb).0, &and);
        chk("operator:|", (ba | bb).0, &or);
        chk("operator:^", (ba ^ bb).0, &xor);
        chk("operator:-", (ba - bb).0, &sub);
        let mut x = ba;
        x &= bb;
        chk("assign:&=", x.0, &and);
        let mut x = ba;
        x |= bb;
        chk("assign:|=", x.0, &or);
        let mut x = ba;
        x ^= bb;
        chk("assign:^=", x.0, &xor);
        let mut x = ba;
        x -= bb;
        chk("assign:-=", x.0, &sub);
        if ba.is_subset(bb) != subset {
            p.push(("relation:is_subset", format!("is_subset = {}, really {}", ba.is_subset(bb), subset)));
        }
        if ba.is_superset(bb) != superset {
            p.push(("relation:is_superset", format!("is_superset = {}, really {}", ba.is_superset(bb), superset)));
        }
        if ba.is_disjoint(bb) != disjoint {
            p.push(("relation:is_disjoint", format!("is_disjoint = {}, really {}", ba.is_disjoint(bb), disjoint)));
        }
        p
    });
    match r {
        Err(e) => bad(sink, "panic", case(), e),
        Ok(p) => {
            for (what, d) in p {
                bad(sink, what, case(), format!("a = {:#x}, b = {:#x}: {}", a, b, d));
            }
        }
    }
}

pub fn check_unary(a: u64, sink: &Sink, t: &mut Tally) {
    let sa = to_set(a);
    let ba = BitBoard(a);
    let case = || json!({"kind": "unary", "a": hex(a)});
    let members: Vec<u8> = (0..64u8).filter(|&i| sa[i as usize]).collect();
    t.transitions += 8;
    t.validated += 8;
    let r = guarded(|| {
        let mut p: Vec<(&'static str, String)> = Vec::new();
        let mut neg = [false; 64];
        for i in 0..64 {
            neg[i] = !sa[i];
        }
        if (!ba).0 != from_set(&neg) {
            p.push(("operator:!", format!("complement gives {:#x}", (!ba).0)));
        }
        if ba.len() as usize != members.len() {
            p.push(("size:len", format!("len() = {}, {} members", ba.len(), members.len())));
        }
        if ba.is_empty() != members.is_empty() {
            p.push(("size:is_empty", format!("is_empty() = {}", ba.is_empty())));
        }
        for i in 0..64u8 {
            if ba.has(square_of(i)) != sa[i as usize] {
                p.push(("membership:has", format!("has({}) = {}", square_of(i), ba.has(square_of(i)))));
                break;
            }
        }
        if ba.next_square().map(sq_of) != members.first().copied() {
            p.push(("iteration:next_square", format!("next_square() = {:?}", ba.next_square())));
        }
        // iteration: ascending, exact remaining length at every step
        for (name, mut it) in [("iteration:iter", ba.iter()), ("iteration:into_iter", ba.into_iter())] {
            let mut got = Vec::with_capacity(members.len());
            loop {
                let rem = members.len().saturating_sub(got.len());
                if it.len() != rem || it.size_hint() != (rem, Some(rem)) {
                    p.push((name, format!("after {} items len() = {}, size_hint = {:?}, remaining {}", got.len(), it.len(), it.size_hint(), rem)));
                    break;
                }
                match it.next() {
                    Some(s) => got.push(sq_of(s)),
                    None => break,
                }
                if got.len() > 64 {
                    break;
                }
            }
            if got != members {
                p.push((name, format!("iteration yields {:?}, members are {:?}", got, members)));
            }
        }
        // the provided Iterator consumers agree with next() from every partially consumed state
        for k in 0..=members.len() {
            if k > 3 && k + 2 < members.len() {
                continue;
            }
            let fresh = || {
                let mut f = ba.iter();
                for _ in 0..k {
                    f.next();
                }
                f
            };
            let rest = &members[k..];
            if fresh().count() != rest.len() {
                p.push(("iteration:count", format!("after {} next(): count() = {}, {} remain", k, fresh().count(), rest.len())));
            }
            if fresh().last().map(sq_of) != rest.last().copied() {
                p.push(("iteration:last", format!("after {} next(): last() disagrees", k)));
            }
            let mut folded = Vec::with_capacity(rest.len());
            fresh().for_each(|s| folded.push(sq_of(s)));
            if folded != rest {
                p.push(("iteration:for_each", format!("after {} next(): for_each delivers {:?}", k, folded)));
            }
            for n in [0usize, 1, 2, rest.len().saturating_sub(1), rest.len(), rest.len() + 1, 63, 64, 65, u32::MAX as usize, 1 << 32, (1usize << 32) + 1, (1usize << 32) + 2, usize::MAX] {
                let mut f = fresh();
                let got = f.nth(n).map(sq_of);
                let want = rest.get(n).copied();
                let left_want = rest.len().saturating_sub(n.saturating_add(1));
                if got != want || f.len() != left_want {
                    p.push(("iteration:nth", format!("after {} next(): nth({}) = {:?} leaving {}, expected {:?} leaving {}", k, n, got, f.len(), want, left_want)));
                    break;
                }
            }
            for st in [1usize, 2, 7, (1usize << 32) + 1] {
                let got: Vec<u8> = fresh().step_by(st).map(sq_of).collect();
                let want: Vec<u8> = rest.iter().copied().step_by(st).collect();
                if got != want {
                    p.push(("iteration:step_by", format!("after {} next(): step_by({}) yields {:?}", k, st, got)));
                    break;
                }
            }
        }
        // collecting squares builds their set (ascending, descending and with duplicates)
        let c1: BitBoard = members.iter().map(|&s| square_of(s)).collect();
        let c2: BitBoard = members.iter().rev().chain(members.iter()).map(|&s| square_of(s)).collect();
        if c1.0 != a || c2.0 != a {
            p.push(("collect:from_iter", format!("collect gives {:#x} / {:#x}", c1.0, c2.0)));
        }
        // long streams (more items than squares): a member repeated k times in front of the rest,
        // and every member three times in a row
        if let Some(&first) = members.first() {
            for k in [1usize, 62, 63, 64, 65, 127, 128, 129, 200, 255, 256, 257] {
                let c: BitBoard = std::iter::repeat(first).take(k).chain(members.iter().rev().copied()).map(square_of).collect();
                if c.0 != a {
                    p.push(("collect:from_iter", format!("collect of one member repeated {} times followed by all members gives {:#x}", k, c.0)));
                    break;
                }
            }
            let c: BitBoard = members.iter().flat_map(|&s| [s, s, s]).map(square_of).collect();
            if c.0 != a {
                p.push(("collect:from_iter", format!("collect of every member three times in a row gives {:#x}", c.0)));
            }
        }
        // flips: involutions that move each member to its mirrored square
        let mut fr = [false; 64];
        let mut ff = [false; 64];
        for &s in &members {
            fr[refmodel::sq(refmodel::file_of(s), 7 - refmodel::rank_of(s)) as usize] = true;
            ff[refmodel::sq(7 - refmodel::file_of(s), refmodel::rank_of(s)) as usize] = true;
        }
        if ba.flip_ranks().0 != from_set(&fr) || ba.flip_ranks().flip_ranks() != ba {
            p.push(("flip:flip_ranks", format!("flip_ranks gives {:#x}, mirrored set is {:#x}", ba.flip_ranks().0, from_set(&fr))));
        }
        if ba.flip_files().0 != from_set(&ff) || ba.flip_files().flip_files() != ba {
            p.push(("flip:flip_files", format!("flip_files gives {:#x}, mirrored set is {:#x}", ba.flip_files().0, from_set(&ff))));
        }
        p
    });
    match r {
        Err(e) => bad(sink, "panic", case(), e),
        Ok(p) => {
            for (what, d) in p {
                bad(sink, what, case(), format!("a = {:#x}: {}", a, d));
            }
        }
    }
}

pub fn check_subsets(mask: u64, sink: &Sink, t: &mut Tally) {
    let case = || json!({"kind": "subsets", "a": hex(mask)});
    let n = mask.count_ones();
    t.transitions += 1;
    t.validated += 1u64 << n;
    let r = guarded(|| {
        let mut count = 0u64;
        let mut prev: Option<u64> = None;
        for s in BitBoard(mask).iter_subsets() {
            if s.0 & !mask != 0 {
                return Some(format!("yields {:#x} which is not a subset", s.0));
            }
            if let Some(p) = prev {
                if s.0 <= p {
                    return Some(format!("yields {:#x} after {:#x} (not strictly increasing)", s.0, p));
                }
            } else if s.0 != 0 {
                return Some(format!("first subset is {:#x}, not the empty set", s.0));
            }
            prev = Some(s.0);
            count += 1;
            if count > (1u64 << n) {
                return Some("yields more than 2^len subsets".to_string());
            }
        }
        if count != 1u64 << n {
            return Some(format!("yields {} subsets, expected {}", count, 1u64 << n));
        }
        if prev != Some(mask) {
            return Some(format!("last subset is {:?}, not the full set", prev));
        }
        None
    });
    match r {
        Err(e) => bad(sink, "panic", case(), e),
        Ok(Some(d)) => bad(sink, "subsets:iter_subsets", case(), format!("iter_subsets of {:#x}: {}", mask, d)),
        Ok(None) => {}
    }
}

/// For sets too large to enumerate: the first `n` subsets must be the n numerically smallest
/// subsets in increasing order (checked against an independent successor computation), and the
/// iterator must not end before them.
pub fn check_subsets_prefix(mask: u64, n: usize, sink: &Sink, t: &mut Tally) {
    let case = || json!({"kind": "subsets-prefix", "a": hex(mask), "n": n});
    t.transitions += 1;
    let total: u128 = 1u128 << mask.count_ones();
    let want_n = std::cmp::min(n as u128, total) as usize;
    // reference: deposit the bits of the counter i into the positions of the mask
    let positions: Vec<u32> = (0..64).filter(|b| mask >> b & 1 == 1).collect();
    let nth = |i: u64| -> u64 {
        let mut out = 0u64;
        for (j, &p) in positions.iter().enumerate() {
            if j < 64 && i >> j & 1 == 1 {
                out |= 1u64 << p;
            }
        }
        out
    };
    let r = guarded(|| {
        let mut it = BitBoard(mask).iter_subsets();
        for i in 0..want_n {
            match it.next() {
                Some(s) if s.0 == nth(i as u64) => {}
                Some(s) => return Some(format!("subset #{} is {:#x}, expected {:#x}", i, s.0, nth(i as u64))),
                None => return Some(format!("iteration ends after {} subsets, the set has {}", i, total)),
            }
        }
        None
    });
    t.validated += want_n as u64;
    match r {
        Err(e) => bad(sink, "subsets:iter_subsets panicked", case(), format!("iter_subsets of {:#x}: {}", mask, e)),
        Ok(Some(d)) => bad(sink, "subsets:iter_subsets prefix", case(), format!("iter_subsets of {:#x}: {}", mask, d)),
        Ok(None) => {}
    }
}

pub fn run(run: &mut Run) {
    let thorough = !run.quick();
    let fam = family(thorough);
    let sets: Vec<Set> = fam.iter().map(|&x| to_set(x)).collect();
    run.rule = "family = {empty, full, every set of <=2 squares, complements of singletons (thorough: and of pairs), every subset of one (thorough: two) 12-square window(s), files, adjacent-file sets, ranks, named constants}; all ORDERED PAIRS of the family for & | ^ - and assigning forms, is_subset/is_superset/is_disjoint against a [bool;64] reference; every member for ! len is_empty has next_square iteration (both forms, exact length at every step) collect flips; iter_subsets for every family member of <=14 bits (thorough 16) and every rook/bishop relevant-blocker mask. non-trivial = pairs with a non-empty intersection".into();
    run.assume("2^64 bitboards are not enumerated: the operators act per bit, and every bit position, every pair of positions and every subset of a 12-square window occur in the family");
    let t0 = Instant::now();
    let t: Tally = (0..fam.len())
        .into_par_iter()
        .fold(Tally::default, |mut t, i| {
            check_unary(fam[i], &run.sink, &mut t);
            let (mut n_disj, mut n_sub, mut n_sup, mut n_eq, mut n_over) = (0u64, 0u64, 0u64, 0u64, 0u64);
            for j in 0..fam.len() {
                t.states += 1;
                let (a, b) = (fam[i], fam[j]);
                if a & b != 0 {
                    t.nontrivial += 1;
                }
                // outcome classes of the pair (by the reference relation)
                if a == b {
                    n_eq += 1;
                } else if a & b == 0 {
                    n_disj += 1;
                } else if a & b == a {
                    n_sub += 1;
                } else if a & b == b {
                    n_sup += 1;
                } else {
                    n_over += 1;
                }
                check_pair(a, b, &sets[i], &sets[j], &run.sink, &mut t);
            }
            t.hit_n("pairs: equal", n_eq);
            t.hit_n("pairs: disjoint", n_disj);
            t.hit_n("pairs: proper subset", n_sub);
            t.hit_n("pairs: proper superset", n_sup);
            t.hit_n("pairs: overlapping", n_over);
            t
        })
        .reduce(Tally::default, Tally::merge);
    let mut t = t;
    t.evals = t.states;
    run.add("P-BITBOARD-PAIRS", json!({"family_size": fam.len(), "ordered_pairs": fam.len() * fam.len()}), true, t0, t);
    let t0 = Instant::now();
    let limit = if thorough { 16 } else { 14 };
    let mut masks: Vec<u64> = fam.iter().copied().filter(|m| m.count_ones() <= limit).collect();
    for s in 0..64u8 {
        // the masks build.rs iterates: rook rays without edges, bishop rays without edges
        let (f, r) = (refmodel::file_of(s), refmodel::rank_of(s));
        let mut rook = 0u64;
        for ff in 1..7u8 {
            if ff != f {
                rook |= 1 << refmodel::sq(ff, r);
            }
        }
        for rr in 1..7u8 {
            if rr != r {
                rook |= 1 << refmodel::sq(f, rr);
            }
        }
        masks.push(rook);
        masks.push(geom::bishop_rays(s) & !0xFF818181818181FFu64);
        masks.push(geom::rook_rays(s));
        masks.push(geom::bishop_rays(s));
    }
    masks.sort_unstable();
    masks.dedup();
    let t: Tally = masks
        .par_iter()
        .fold(Tally::default, |mut t, &m| {
            t.states += 1;
            t.evals += 1;
            if m.count_ones() >= 2 {
                t.nontrivial += 1;
            }
            check_subsets(m, &run.sink, &mut t);
            t
        })
        .reduce(Tally::default, Tally::merge);
    run.add("P-SUBSETS", json!({"masks": masks.len(), "max_bits": limit, "includes": "all rook/bishop relevant-blocker masks and full ray sets"}), true, t0, t);
    // large sets (up to all 64 squares): the first 4096 subsets
    let t0 = Instant::now();
    let big: Vec<u64> = fam.iter().copied().filter(|m| m.count_ones() > limit).collect();
    let t: Tally = big
        .par_iter()
        .fold(Tally::default, |mut t, &m| {
            t.states += 1;
            t.evals += 1;
            t.nontrivial += 1;
            check_subsets_prefix(m, 4096, &run.sink, &mut t);
            t
        })
        .reduce(Tally::default, Tally::merge);
    run.add("P-SUBSETS-PREFIX", json!({"masks": big.len(), "bits": format!("{}..64 (incl. the full board)", limit + 1), "prefix": 4096}), true, t0, t);
    run.sink.sample(|| json!({"kind": "pair", "a": hex(fam[fam.len() / 3]), "b": hex(fam[fam.len() / 2])}));
    run.sink.sample(|| json!({"kind": "subsets", "a": hex(masks[masks.len() / 2])}));
}

pub fn replay(case: &Value, sink: &Sink, t: &mut Tally) -> Result<(), String> {
    let a = unhex(&case["a"])?;
    match case["kind"].as_str().unwrap_or("") {
        "pair" => {
            let b = unhex(&case["b"])?;
            check_pair(a, b, &to_set(a), &to_set(b), sink, t)
        }
        "unary" => check_unary(a, sink, t),
        "subsets" => check_subsets(a, sink, t),
        "subsets-prefix" => check_subsets_prefix(a, case["n"].as_u64().unwrap_or(4096) as usize, sink, t),
        _ => return Err("MACHINERY: kind".into()),
    }
    Ok(())
}
