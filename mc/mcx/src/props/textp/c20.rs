use super::*;
use crate::explore::{Bounds, Monitor, View};
use crate::props::{run_plan, Plan};
use crate::universes::*;
use cozy_chess::util::*;
use refmodel::san::{components, matches, san, uci};
use refmodel::{Col, Kind, Mv};

fn orthodox(p: &Pos) -> bool {
    for c in Col::ALL {
        let r = p.rights[c as usize];
        if r[0].is_some() || r[1].is_some() {
            match p.king_sq(c) {
                Some(k) if refmodel::file_of(k) == 4 => {}
                _ => return false,
            }
            if !matches!(r[0], None | Some(7)) || !matches!(r[1], None | Some(0)) {
                return false;
            }
        }
    }
    true
}

pub struct Writers;
impl Monitor for Writers {
    fn state(&self, v: &View, t: &mut Tally, s: &Sink) {
        let orth = orthodox(v.pos);
        t.hit(if orth { "orthodox-castling board" } else { "chess960-castling board" });
        for &m in v.ref_moves {
            if !v.lib_moves.contains(&m) {
                continue;
            }
            let mv = move_of(m);
            let mut c = v.case();
            c["move"] = json!(m.text());
            t.transitions += 2;
            t.validated += 2;
            let want = san(v.pos, m);
            match guarded(|| format!("{}", display_san_move(v.board, mv))) {
                Err(e) => s.violation("C20.san-writer", "display_san_move panicked", c.clone(), format!("display_san_move({}) on {}: {}", mv, shredder(v.board), e)),
                Ok(txt) => {
                    if txt != want {
                        let kind = v.pos.sq[m.from as usize].map_or('-', |(k, _)| k.upper());
                        let sig = if txt.trim_end_matches(['+', '#']) == want.trim_end_matches(['+', '#']) { format!("suffix:{}", kind) } else { format!("body:{}", kind) };
                        s.violation("C20.san-writer", &sig, c.clone(), format!("display_san_move({}) on {} = {:?}, canonical SAN is {:?}", mv, shredder(v.board), txt, want));
                    }
                    match guarded(|| parse_san_move(v.board, &txt)) {
                        Err(e) => s.violation("C20.san-reader", "parse_san_move panicked on written SAN", c.clone(), e),
                        Ok(Ok(back)) if back == mv => {}
                        Ok(other) => s.violation("C20.san-roundtrip", "reader does not invert writer", c.clone(), format!("parse_san_move({:?}) on {} = {:?}, written for {}", txt, shredder(v.board), other.ok().map(|x| x.to_string()), mv)),
                    }
                }
            }
            // the canonical text must be read back too (even if the writer deviates)
            match guarded(|| parse_san_move(v.board, &want)) {
                Err(e) => s.violation("C20.san-reader", "parse_san_move panicked on canonical SAN", c.clone(), e),
                Ok(Ok(back)) if back == mv => {}
                Ok(other) => s.violation("C20.san-roundtrip", "reader does not read canonical SAN", c.clone(), format!("parse_san_move({:?}) on {} = {:?}, expected {}", want, shredder(v.board), other.ok().map(|x| x.to_string()), mv)),
            }
            if orth {
                t.transitions += 2;
                t.validated += 2;
                let want = uci(v.pos, m);
                match guarded(|| format!("{}", display_uci_move(v.board, mv))) {
                    Err(e) => s.violation("C20.uci", "display_uci_move panicked", c.clone(), e),
                    Ok(txt) => {
                        if txt != want {
                            s.violation("C20.uci", if v.pos.is_castle(m) { "writer:castle" } else { "writer:other" }, c.clone(), format!("display_uci_move({}) on {} = {:?}, standard UCI is {:?}", mv, shredder(v.board), txt, want));
                        }
                        match guarded(|| parse_uci_move(v.board, &txt)) {
                            Err(e) => s.violation("C20.uci", "parse_uci_move panicked", c.clone(), e),
                            Ok(Ok(back)) if back == mv => {}
                            Ok(other) => s.violation("C20.uci", if v.pos.is_castle(m) { "reader:castle" } else { "reader:other" }, c.clone(), format!("parse_uci_move({:?}) on {} = {:?}, expected {}", txt, shredder(v.board), other.ok().map(|x| x.to_string()), mv)),
                        }
                    }
                }
            }
        }
    }
}

/// one string through the SAN reader on one board
pub fn check_san_text(board: &Board, pos: &Pos, legal: &[Mv], text: &str, sink: &Sink, t: &mut Tally) {
    t.transitions += 1;
    t.validated += 1;
    let case = || json!({"kind": "san", "board": shredder(board), "text": text});
    match guarded(|| parse_san_move(board, text)) {
        Err(e) => sink.violation("C20.san-reader", "parse_san_move panicked", case(), format!("parse_san_move({:?}) on {}: {}", text, shredder(board), e)),
        Ok(Err(_)) => t.hit("error"),
        Ok(Ok(mv)) => {
            let m = mv_of(mv);
            if !legal.contains(&m) {
                sink.violation("C20.san-reader", "returned an illegal move", case(), format!("parse_san_move({:?}) on {} = {} which is not legal", text, shredder(board), mv));
                return;
            }
            match components(text) {
                None => t.hit("move (text outside the component grammar)"),
                Some(c) => {
                    t.hit("move (grammar text)");
                    if !matches(pos, m, &c) {
                        sink.violation("C20.san-reader", "returned move contradicts a written component", case(), format!("parse_san_move({:?}) on {} = {}, which does not match {:?}", text, shredder(board), mv, c));
                    } else {
                        let n = legal.iter().filter(|x| matches(pos, **x, &c)).count();
                        if n != 1 {
                            sink.violation("C20.san-reader", "ambiguous text resolved to one of several moves", case(), format!("parse_san_move({:?}) on {} = {}, but {} legal moves match every component", text, shredder(board), mv, n));
                        }
                    }
                }
            }
        }
    }
}

fn grammar_strings(f: &mut dyn FnMut(&str)) {
    let pieces = ["", "K", "Q", "R", "B", "N", "P"];
    let files = ["", "a", "b", "c", "d", "e", "f", "g", "h"];
    let ranks = ["", "1", "2", "3", "4", "5", "6", "7", "8"];
    let promos = ["", "=Q", "=R", "=B", "=N", "=K", "=P", "Q", "R", "B", "N", "K", "P"];
    let sufs = ["", "+", "#"];
    let mut s = String::with_capacity(12);
    for p in pieces {
        for ff in files {
            for fr in ranks {
                for x in ["", "x"] {
                    for df in &files[1..] {
                        for dr in &ranks[1..] {
                            for pr in promos {
                                for su in sufs {
                                    s.clear();
                                    s.push_str(p);
                                    s.push_str(ff);
                                    s.push_str(fr);
                                    s.push_str(x);
                                    s.push_str(df);
                                    s.push_str(dr);
                                    s.push_str(pr);
                                    s.push_str(su);
                                    f(&s);
                                }
                            }
                        }
                    }
                }
            }
        }
    }
    for c in ["O-O", "O-O-O", "0-0", "0-0-0", "o-o", "O-O-", "-O-O", "O-O-O-O", "OO", "O-", "O", "O--O", "O-O=Q", "KO-O", "O-Ox", "e1O-O"] {
        for su in ["", "+", "#", "++", "!"] {
            f(&format!("{}{}", c, su));
        }
    }
}

fn reader_universe(boards: &[(Board, Pos, Vec<Mv>)], sink: &Sink) -> Tally {
    let alpha40 = crate::props::pure::ALPHA40;
    let menu_v = crate::props::textp::unicode_menu(false);
    let menu: &[char] = &menu_v;
    // parallel over (board, piece letter) blocks of the grammar
    let t: Tally = boards
        .par_iter()
        .fold(Tally::default, |mut t, (b, p, legal)| {
            t.states += 1;
            if !legal.is_empty() {
                t.nontrivial += 1;
            }
            grammar_strings(&mut |s| {
                t.evals += 1;
                if sink.want_sample(t.evals / 4096) && t.evals % 4096 == 1 {
                    sink.sample(|| json!({"kind": "san", "board": shredder(b), "text": s}));
                }
                check_san_text(b, p, legal, s, sink, &mut t);
            });
            // every string of length <= 3 over the 40-symbol alphabet
            fn rec(alphabet: &[char], left: usize, cur: &mut String, f: &mut dyn FnMut(&str)) {
                f(cur);
                if left == 0 {
                    return;
                }
                for &c in alphabet {
                    cur.push(c);
                    rec(alphabet, left - 1, cur, f);
                    cur.pop();
                }
            }
            let mut cur = String::new();
            rec(alpha40, 3, &mut cur, &mut |s| {
                t.evals += 1;
                check_san_text(b, p, legal, s, sink, &mut t);
            });
            // the canonical SAN of every legal move: padded to great lengths, and with every
            // character position substituted by every character of the Unicode menu
            for &m in legal.iter() {
                let base = refmodel::san::san(p, m);
                for pad in [' ', '+', '#', '0', 'x', '\u{e9}'] {
                    for n in (1..=300usize).chain(505..=520) {
                        let run: String = std::iter::repeat(pad).take(n).collect();
                        for text in [format!("{}{}", base, run), format!("{}{}", run, base)] {
                            t.evals += 1;
                            check_san_text(b, p, legal, &text, sink, &mut t);
                        }
                    }
                }
                let chars: Vec<char> = base.chars().collect();
                for pos in 0..chars.len() {
                    for &c in menu {
                        let text: String = chars.iter().enumerate().map(|(i, &x)| if i == pos { c } else { x }).collect();
                        t.evals += 1;
                        check_san_text(b, p, legal, &text, sink, &mut t);
                    }
                }
            }
            t
        })
        .reduce(Tally::default, Tally::merge);
    t
}

/// three equal white pieces on a 4x4 block, optionally with an enemy bishop pinning along a1-h8
pub struct Disambiguation;
impl RawUniverse for Disambiguation {
    fn name(&self) -> String {
        "S-DISAMBIG".into()
    }
    fn bounds(&self) -> Value {
        json!({"kings": "white a1, black h2", "pieces": "every 3-subset of the block b2..e5 filled with three white N / B / R / Q", "pinner": "none or a black bishop on g7", "side": "white"})
    }
    fn parts(&self) -> usize {
        4
    }
    fn part(&self, i: usize, f: &mut dyn FnMut(Pos)) {
        let kind = [Kind::N, Kind::B, Kind::R, Kind::Q][i];
        let block: Vec<u8> = (1..5u8).flat_map(|r| (1..5u8).map(move |fl| refmodel::sq(fl, r))).collect();
        for a in 0..block.len() {
            for b in a + 1..block.len() {
                for c in b + 1..block.len() {
                    for pin in [false, true] {
                        let mut p = Pos::empty();
                        p.sq[0] = Some((Kind::K, Col::W));
                        p.sq[15] = Some((Kind::K, Col::B));
                        for &s in &[block[a], block[b], block[c]] {
                            p.sq[s as usize] = Some((kind, Col::W));
                        }
                        if pin {
                            p.sq[54] = Some((Kind::B, Col::B));
                        }
                        f(p);
                    }
                }
            }
        }
    }
}

fn reader_boards(quick: bool, sink: &Sink) -> Vec<(Board, Pos, Vec<Mv>)> {
    let mut fens: Vec<String> = vec![
        "3k2n1/7P/Q3p3/4BPp1/Q1Q4q/8/5B2/R3K2R w KQ g6 0 1".into(),
        KIWIPETE.into(),
        "1rk3r1/8/8/8/8/8/8/R2K3R w HAgb - 0 1".into(),
        "r3k2r/1P4P1/8/8/8/8/1p4p1/R3K2R b KQkq - 0 1".into(),
        "4k3/8/8/8/8/5n2/4r3/4K3 w - - 0 1".into(),
        "k7/8/8/3N1N2/8/3N1N2/8/K7 w - - 0 1".into(),
    ];
    if !quick {
        fens.extend(MID_ROOTS.iter().map(|s| s.to_string()));
        fens.push("rnbqkbnr/pppppppp/8/8/8/8/PPPPPPPP/RNBQKBNR w KQkq - 0 1".into());
        fens.push("k7/8/2R1R3/8/2R1R3/8/8/K7 w - - 0 1".into());
        fens.push("k6q/8/2Q1Q3/8/2Q1Q3/8/8/K7 w - - 0 1".into());
        fens.push("4k3/2P1P3/8/8/8/8/2p1p3/4K3 w - - 0 1".into());
        fens.push("3rkr2/2P1P3/8/8/8/8/8/4K3 w - - 0 1".into());
    }
    let mut out = Vec::new();
    for (_, b) in fen_roots(&fens, sink) {
        let p = alpha(&b);
        let legal = p.legal_moves();
        out.push((b, p, legal));
    }
    out
}

pub fn run(run: &mut Run) {
    let q = run.quick();
    run.rule = "writers: every legal move of every visited board through display_san_move (vs reference canonical SAN), back through parse_san_move (from the written and from the canonical text), and on orthodox-castling boards through display_uci_move (vs standard UCI) and parse_uci_move. reader: on each corpus board every string of the component grammar [KQRBNP]?[a-h]?[1-8]?x?[a-h][1-8](=?[KQRBNP])?[+#]? (2.83 million per board), castle forms and look-alikes, and every string of length <=3 over a 40-symbol alphabet: never a panic, never an illegal move, and for grammar texts the returned move matches every written component and is the only legal move that does. non-trivial = boards with legal moves / states as for C01".into();
    run.assume("capture mark and check/mate suffix are annotations for the reader (its documentation says they are ignored); 'every component' = piece letter, origin file, origin rank, destination, promotion piece, castle wing");
    run.assume("'all strings' is restricted to the enumerated string families");
    let bd = |d, n| Bounds { depth: d, max_nulls: n };
    let mut plan = Plan::empty();
    if q {
        plan.start = Some(bd(2, 0));
        plan.mid = Some(bd(1, 1));
        plan.r960 = Some(bd(0, 0));
        plan.clock = Some(bd(1, 0));
        plan.lines = Some(bd(1, 0));
        plan.walk = Some((120, 40, 2, 7, bd(0, 0)));
        plan.raws.push((Box::new(Castle { extra: 1, ek_rank2: false }), bd(0, 0)));
        plan.raws.push((Box::new(Disambiguation), bd(0, 0)));
        plan.raws.push((Box::new(Caged { inner: Box::new(TwoLines { enemy_kings: vec![35] }), variants: 3, mover: false }), bd(0, 0)));
    } else {
        plan.start = Some(bd(3, 1));
        plan.mid = Some(bd(3, 1));
        plan.r960 = Some(bd(1, 0));
        plan.clock = Some(bd(2, 1));
        plan.lines = Some(bd(2, 1));
        plan.walk = Some((960, 60, 1, 7, bd(0, 0)));
        plan.raws.push((Box::new(Castle { extra: 2, ek_rank2: false }), bd(0, 0)));
        plan.raws.push((Box::new(Disambiguation), bd(1, 0)));
        plan.raws.push((Box::new(Caged { inner: Box::new(TwoLines { enemy_kings: vec![35, 60, 63] }), variants: 3, mover: false }), bd(0, 0)));
        plan.raws.push((Box::new(Caged { inner: Box::new(CheckPin { kings: vec![15, 55, 27] }), variants: 3, mover: true }), bd(1, 0)));
        plan.raws.push((Box::new(ThreeMen { bk: None }), bd(0, 0)));
        plan.raws.push((Box::new(EpUniverse::reduced()), bd(0, 0)));
        plan.raws.push((Box::new(Checks { n: 2 }), bd(0, 0)));
    }
    run_plan(run, &plan, &Writers, &NoCand);
    let t0 = Instant::now();
    let boards = reader_boards(q, &run.sink);
    let t = reader_universe(&boards, &run.sink);
    run.add("T-SAN", json!({"boards": boards.len(), "grammar_strings_per_board": 7 * 9 * 9 * 2 * 64 * 13 * 3, "castle_lookalikes": 80, "short_strings": "all of length <= 3 over 40 symbols", "canonical_san_of_every_legal_move": "padded before/after with 1..=300 and 505..=520 copies of one of 6 characters; every position substituted by every character of the Unicode menu (ASCII, case-mapping look-alikes, white space, numerics, full-width forms)"}), true, t0, t);
}

pub fn replay(case: &Value, sink: &Sink, t: &mut Tally) -> Result<(), String> {
    if case["kind"] == "san" {
        let fen = case["board"].as_str().ok_or("MACHINERY: board")?;
        let b = guarded(|| Board::from_fen(fen, true))?.map_err(|e| format!("MACHINERY: {} rejected: {}", fen, e))?;
        let p = alpha(&b);
        let legal = p.legal_moves();
        check_san_text(&b, &p, &legal, case["text"].as_str().ok_or("MACHINERY: text")?, sink, t);
        return Ok(());
    }
    crate::props::with_view(case, |v| Writers.state(v, t, sink)).map_err(|e| format!("MACHINERY: {}", e))?;
    Ok(())
}
