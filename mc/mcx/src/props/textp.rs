//! C08 FEN parser (total, strict, names the bad field) and C20 SAN / UCI helpers.

use crate::bridge::*;
use crate::report::{Run, Sink, Tally};
use cozy_chess::*;
use rayon::prelude::*;
use refmodel::text::{decode_fen_all, to_fen, FenFault, Notation};
use refmodel::Pos;
use serde_json::{json, Value};
use std::time::Instant;

mod c20;

#[derive(Clone, Copy, PartialEq, Eq, Debug)]
pub enum Entry {
    Standard,
    Shredder,
    Parse,
}
impl Entry {
    pub const ALL: [Entry; 3] = [Entry::Standard, Entry::Shredder, Entry::Parse];
    fn name(self) -> &'static str {
        match self {
            Entry::Standard => "from_fen(_, false)",
            Entry::Shredder => "from_fen(_, true)",
            Entry::Parse => "str::parse",
        }
    }
    fn from_name(s: &str) -> Option<Entry> {
        Entry::ALL.into_iter().find(|e| e.name() == s)
    }
    fn notation(self) -> Notation {
        match self {
            Entry::Standard => Notation::Standard,
            Entry::Shredder => Notation::Shredder,
            Entry::Parse => Notation::Either,
        }
    }
    fn call(self, text: &str) -> Result<Result<Board, FenParseError>, String> {
        guarded(|| match self {
            Entry::Standard => Board::from_fen(text, false),
            Entry::Shredder => Board::from_fen(text, true),
            Entry::Parse => text.parse::<Board>(),
        })
    }
}

fn fault_of(e: &FenParseError) -> FenFault {
    match e {
        FenParseError::InvalidBoard => FenFault::Board,
        FenParseError::InvalidSideToMove => FenFault::Side,
        FenParseError::InvalidCastlingRights => FenFault::Castling,
        FenParseError::InvalidEnPassant => FenFault::EnPassant,
        FenParseError::InvalidHalfMoveClock => FenFault::HalfMove,
        FenParseError::InvalidFullmoveNumber => FenFault::FullMove,
        FenParseError::MissingField => FenFault::TooFewFields,
        FenParseError::TooManyFields => FenFault::TooManyFields,
    }
}

/// One string through one entry point. `expect`: Some(fault) when the generator knows that exactly
/// this is wrong with an otherwise valid record (attribution is asserted only then).
pub fn check_text(text: &str, entry: Entry, expect: Option<FenFault>, sink: &Sink, t: &mut Tally) {
    t.transitions += 1;
    t.validated += 1;
    let case = || json!({"kind": "fen", "text": text, "entry": entry.name(), "expect": expect.map(|f| format!("{:?}", f))});
    match entry.call(text) {
        Err(e) => sink.violation("C08.total", &format!("{} panicked", entry.name()), case(), format!("{}({:?}) panicked: {}", entry.name(), text, e)),
        Ok(Ok(b)) => {
            t.hit("accepted");
            let got = alpha(&b);
            match decode_fen_all(text, entry.notation()) {
                Err(f) => {
                    let nfields = text.split(' ').count();
                    let nranks = text.split(' ').next().unwrap_or("").split('/').count();
                    let sig = if nfields != 6 {
                        format!("accepted with {} fields", nfields)
                    } else if nranks != 8 {
                        format!("accepted with {} ranks", nranks)
                    } else {
                        format!("accepted although the {:?} field denotes nothing", f)
                    };
                    sink.violation("C08.strict", &sig, case(), format!("{}({:?}) returns the board {} but the text is not a well-formed record ({:?})", entry.name(), text, shredder(&b), f));
                }
                Ok(readings) => {
                    if !readings.contains(&got) {
                        sink.violation("C08.faithful", "board is not the position the text denotes", case(), format!("{}({:?}) returns {} but the text denotes {}", entry.name(), text, shredder(&b), to_fen(&readings[0], true)));
                    }
                }
            }
            if let Some(f) = expect {
                sink.violation("C08.attribution", &format!("{:?} fault accepted", f), case(), format!("{}({:?}) accepts a record whose {:?} field is wrong", entry.name(), text, f));
            }
        }
        Ok(Err(e)) => {
            t.hit("rejected");
            if let Some(f) = expect {
                t.hit("attribution-checked");
                if fault_of(&e) != f {
                    sink.violation("C08.attribution", &format!("{:?} reported as {:?}", f, fault_of(&e)), case(), format!("{}({:?}): only {:?} is wrong, but the error is {:?} ({})", entry.name(), text, f, fault_of(&e), e));
                }
            }
        }
    }
}

const SIGMA: &[char] = &[
    'p', 'n', 'b', 'r', 'q', 'k', 'P', 'N', 'B', 'R', 'Q', 'K', '0', '1', '2', '3', '4', '5', '6', '7', '8', '9', '/', ' ', '-', 'w', 'a', 'c', 'd', 'e', 'f', 'g', 'h', 'A', 'C', 'D', 'E', 'F', 'G', 'H', '+', 'x', 'é',
];

fn field_fault(i: usize) -> FenFault {
    [FenFault::Board, FenFault::Side, FenFault::Castling, FenFault::EnPassant, FenFault::HalfMove, FenFault::FullMove][i]
}

/// expected attribution for a record in which only field `i` of an accepted record was changed
fn expectation(text: &str, i: usize, entry: Entry) -> Option<FenFault> {
    match decode_fen_all(text, entry.notation()) {
        // (i) the field is outside its grammar
        Err(f) if f == field_fault(i) => Some(f),
        Err(_) => None,
        // (ii) a well-formed castling / en-passant / clock field that the position or the range
        // does not support (under every reading)
        Ok(readings) if i >= 2 => {
            let aspects: Vec<Option<FenFault>> = readings.iter().map(|p| p.unsound_aspect()).collect();
            if aspects.iter().all(|a| *a == Some(field_fault(i))) {
                Some(field_fault(i))
            } else {
                None
            }
        }
        Ok(_) => None,
    }
}

/// every single-character edit and every field-level edit of one canonical record
fn edits_of(record: &str, f: &mut dyn FnMut(String, Option<usize>, Option<FenFault>)) {
    let chars: Vec<char> = record.chars().collect();
    // which field does character position p belong to (None = a separating space)
    let mut field_at = Vec::with_capacity(chars.len());
    let mut fi = 0usize;
    for &c in &chars {
        if c == ' ' {
            field_at.push(None);
            fi += 1;
        } else {
            field_at.push(Some(fi));
        }
    }
    let build = |v: &[char]| -> String { v.iter().collect() };
    for p in 0..chars.len() {
        // deletion
        let mut v = chars.clone();
        v.remove(p);
        f(build(&v), field_at[p], None);
        // substitution
        for &c in SIGMA {
            if c != chars[p] {
                let mut v = chars.clone();
                v[p] = c;
                let fld = if c == ' ' { None } else { field_at[p] };
                f(build(&v), fld, None);
            }
        }
    }
    for p in 0..=chars.len() {
        for &c in SIGMA {
            let mut v = chars.clone();
            v.insert(p, c);
            // an inserted non-space character belongs to the field it touches (only asserted
            // when it is strictly inside or at the edge of exactly one field)
            let left = if p > 0 { field_at[p - 1] } else { None };
            let right = if p < chars.len() { field_at[p] } else { None };
            let fld = if c == ' ' {
                None
            } else {
                match (left, right) {
                    (Some(a), Some(b)) if a == b => Some(a),
                    (Some(a), None) => Some(a),
                    (None, Some(b)) => Some(b),
                    _ => None,
                }
            };
            f(build(&v), fld, None);
        }
    }
    // every '/' of the placement moved to every other position of the placement (two compensating
    // structural errors: one rank too long, another too short)
    let placement_len = chars.iter().position(|&c| c == ' ').unwrap_or(chars.len());
    for p in 0..placement_len {
        if chars[p] != '/' {
            continue;
        }
        let mut without = chars.clone();
        without.remove(p);
        for q in 0..placement_len {
            if q == p {
                continue;
            }
            let mut v = without.clone();
            v.insert(q, '/');
            f(build(&v), None, None);
        }
    }
    // field-level edits
    let fields: Vec<&str> = record.split(' ').collect();
    for i in 0..fields.len() {
        let mut v = fields.clone();
        v.remove(i);
        f(v.join(" "), None, None); // dropped
        let mut v = fields.clone();
        v.insert(i, fields[i]);
        f(v.join(" "), None, None); // duplicated
        let mut v = fields.clone();
        v[i] = "";
        f(v.join(" "), Some(i), None); // emptied
        if i + 1 < fields.len() {
            let mut v = fields.clone();
            v.swap(i, i + 1);
            f(v.join(" "), None, None);
        }
    }
    // truncated after k fields, 1 <= k < 6: too few fields
    for k in 1..fields.len() {
        f(fields[..k].join(" "), None, Some(FenFault::TooFewFields));
    }
    // extra trailing field(s): too many fields
    for extra in ["0", "x", "w", "-", "1 1", "KQkq"] {
        f(format!("{} {}", record, extra), None, Some(FenFault::TooManyFields));
    }
    f(format!("{} ", record), None, None);
    f(format!(" {}", record), None, None);
}

fn edit_universe(corpus: &[Pos], pairs_for: usize, sink: &Sink) -> Tally {
    corpus
        .par_iter()
        .enumerate()
        .fold(Tally::default, |mut t, (ci, p)| {
            for shred in [true, false] {
                if !shred && !p.rights.iter().flatten().all(|r| matches!(r, None | Some(0) | Some(7))) {
                    continue;
                }
                let record = to_fen(p, shred);
                // the canonical record itself: accepted, and by which entry points
                let mut accepted_by = Vec::new();
                for e in Entry::ALL {
                    let native = matches!((e, shred), (Entry::Parse, _) | (Entry::Shredder, true) | (Entry::Standard, false));
                    let no_rights = p.rights.iter().flatten().all(|r| r.is_none());
                    if native || no_rights {
                        t.states += 1;
                        match e.call(&record) {
                            Ok(Ok(b)) => {
                                if alpha(&b) != *p {
                                    sink.violation("C08.faithful", "canonical record decoded to another position", json!({"kind": "fen", "text": record, "entry": e.name(), "expect": null}), format!("{}({:?}) gives {}", e.name(), record, shredder(&b)));
                                }
                                accepted_by.push(e);
                            }
                            Ok(Err(err)) => sink.violation("C08.canonical", &format!("canonical record rejected:{:?}", fault_of(&err)), json!({"kind": "canonical", "text": record, "entry": e.name()}), format!("{} rejects the canonical record {:?} of an accepted board ({})", e.name(), record, err)),
                            Err(pn) => sink.violation("C08.total", "panicked on canonical record", json!({"kind": "fen", "text": record, "entry": e.name(), "expect": null}), pn),
                        }
                    }
                }
                let mut firsts: Vec<String> = Vec::new();
                edits_of(&record, &mut |text, field, forced| {
                    t.states += 1;
                    t.evals += 1;
                    if sink.want_sample(t.evals) {
                        sink.sample(|| json!({"kind": "fen-edit", "of": record, "text": text}));
                    }
                    for e in Entry::ALL {
                        // attribution only where the unedited record is accepted by this entry point
                        let expect = if accepted_by.contains(&e) {
                            match (forced, field) {
                                (Some(f), _) => Some(f),
                                (None, Some(i)) => expectation(&text, i, e),
                                _ => None,
                            }
                        } else {
                            None
                        };
                        if expect.is_some() {
                            t.nontrivial += 1;
                        }
                        check_text(&text, e, expect, sink, &mut t);
                    }
                    if ci < pairs_for && shred {
                        firsts.push(text);
                    }
                });
                // all pairs of edits for the first few records (no attribution: two faults)
                for first in firsts {
                    edits_of(&first, &mut |text, _, _| {
                        t.states += 1;
                        t.evals += 1;
                        for e in Entry::ALL {
                            check_text(&text, e, None, sink, &mut t);
                        }
                    });
                }
            }
            t
        })
        .reduce(Tally::default, Tally::merge)
}

#[derive(Clone, Copy, PartialEq)]
enum Lab {
    V,
    Bad,
}
type Menu = Vec<(&'static str, Lab)>;

fn menus() -> [Menu; 6] {
    use Lab::*;
    [
        vec![
            ("rnbqkbnr/pppppppp/8/8/8/8/PPPPPPPP/RNBQKBNR", V),
            ("r3k2r/8/8/8/4P3/8/8/R3K2R", V),
            ("4k3/8/8/8/8/8/8/4K3", V),
            ("r3k2r/8/8/8/4P3/8/44/R3K2R", V),
            ("r3k2r/8/8/8/4P3/8/8/R3K2R0", V),
            ("4k3/8/8/8/8/8/4K3", Bad),
            ("4k3/8/8/8/8/8/8/8/4K3", Bad),
            ("4k3/8/8/8/8/8/8/4K2", Bad),
            ("4k3/8/8/8/8/8/8/4K4", Bad),
            ("4k3/8/8/8/8/8/8/4K9", Bad),
            ("4k3/8/8/8/8/8/8/4X3", Bad),
            ("4k3/8/8/8//8/8/4K3", Bad),
            ("", Bad),
            ("4k3/8/8/8/8/8/8/4K3/", Bad),
            ("/4k3/8/8/8/8/8/8/4K3", Bad),
            ("4k3/8/8/8/8/8/8/4Ké2", Bad),
            ("4k3/8/8/8/8/8/8/3Kk3", Bad),
            ("8/8/8/8/8/8/8/4K3", Bad),
            ("4k3/8/8/8/8/8/8/P3K3", Bad),
            ("4k3/8/8/8/8/8/8/4K2R", V),
        ],
        vec![("w", V), ("b", V), ("W", Bad), ("", Bad), ("x", Bad), ("wb", Bad), ("-", Bad), ("é", Bad)],
        vec![("-", V), ("KQkq", V), ("HAha", V), ("K", V), ("q", V), ("", Bad), ("KK", Bad), ("Kx", Bad), ("--", Bad), ("kqKQ", V), ("AHah", V), ("Hh", V), ("E", Bad), ("KQkq-", Bad), ("é", Bad), ("Aa1", Bad)],
        vec![("-", V), ("e3", V), ("e6", Bad), ("a3", Bad), ("h6", Bad), ("e4", Bad), ("e9", Bad), ("", Bad), ("e", Bad), ("ee3", Bad), ("E3", Bad), ("i3", Bad), ("e3 ", Bad), ("é3", Bad)],
        vec![("0", V), ("1", V), ("99", V), ("100", V), ("101", Bad), ("255", Bad), ("256", Bad), ("65536", Bad), ("-1", Bad), ("+5", V), ("007", V), ("", Bad), ("x", Bad), ("1e1", Bad), ("99999999999999999999", Bad)],
        vec![("1", V), ("2", V), ("65535", V), ("0", Bad), ("65536", Bad), ("-1", Bad), ("+5", V), ("007", V), ("", Bad), ("x", Bad), ("1.0", Bad), ("99999999999999999999", Bad)],
    ]
}

/// full Cartesian product of the per-field menus (totality, strictness, faithful decoding), and
/// single-fault records on valid bases (attribution)
fn menu_universe(sink: &Sink) -> Tally {
    let m = menus();
    let sizes: Vec<usize> = m.iter().map(|x| x.len()).collect();
    let total: usize = sizes.iter().product();
    let prod: Tally = (0..sizes[0])
        .into_par_iter()
        .fold(Tally::default, |mut t, i0| {
            let per = total / sizes[0];
            for rest in 0..per {
                let mut idx = [i0, 0, 0, 0, 0, 0];
                let mut r = rest;
                for k in (1..6).rev() {
                    idx[k] = r % sizes[k];
                    r /= sizes[k];
                }
                let text = (0..6).map(|k| m[k][idx[k]].0).collect::<Vec<_>>().join(" ");
                t.states += 1;
                t.evals += 1;
                if idx.iter().enumerate().filter(|(k, &i)| m[*k][i].1 == Lab::Bad).count() >= 1 {
                    t.nontrivial += 1;
                }
                for e in Entry::ALL {
                    check_text(&text, e, None, sink, &mut t);
                }
            }
            t
        })
        .reduce(Tally::default, Tally::merge);
    // single-fault records: bases accepted by the entry point, one field replaced by each entry
    // of that field's menu; the expectation is derived by the reference decoder
    let bases: [[&str; 6]; 4] = [
        ["rnbqkbnr/pppppppp/8/8/8/8/PPPPPPPP/RNBQKBNR", "w", "KQkq", "-", "0", "1"],
        ["r3k2r/8/8/8/4P3/8/8/R3K2R", "b", "HAha", "e3", "12", "34"],
        ["r3k2r/8/8/8/4P3/8/8/R3K2R", "b", "KQkq", "e3", "12", "34"],
        ["4k3/8/8/8/8/8/8/4K3", "w", "-", "-", "100", "65535"],
    ];
    let mut t = prod;
    for base in bases {
        let record = base.join(" ");
        for e in Entry::ALL {
            if !matches!(e.call(&record), Ok(Ok(_))) {
                continue;
            }
            for i in 0..6 {
                for (alt, _) in &m[i] {
                    if *alt == base[i] {
                        continue;
                    }
                    let mut f = base;
                    f[i] = alt;
                    let text = f.join(" ");
                    // a replacement containing a space changes the field count: not a single-field fault
                    let expect = if alt.contains(' ') { None } else { expectation(&text, i, e) };
                    t.states += 1;
                    t.evals += 1;
                    if expect.is_some() {
                        t.nontrivial += 1;
                    }
                    check_text(&text, e, expect, sink, &mut t);
                }
            }
        }
    }
    t
}

/// Records written for raw states (castling-geometry universe and one-edit neighbours of accepted
/// boards): clause (ii) — a well-formed castling / en-passant / clock field that the position or the
/// range does not support must be reported as that field. The expectation is asserted when the
/// reference model finds exactly that one aspect wrong and the library accepts the record with the
/// aspect neutralised ("otherwise valid").
fn raw_record_universe(us: &[Box<dyn crate::universes::RawUniverse>], sink: &Sink) -> Tally {
    let mut total = Tally::default();
    for u in us {
        let t: Tally = (0..u.parts())
            .into_par_iter()
            .fold(Tally::default, |mut t, i| {
                u.part(i, &mut |raw: Pos| {
                    if !refmodel::text::expressible(&raw) {
                        return;
                    }
                    t.states += 1;
                    t.evals += 1;
                    let mut bare = raw.clone();
                    bare.rights = [[None; 2]; 2];
                    bare.ep = None;
                    bare.hm = 0;
                    bare.fm = 1;
                    let mut expect: Option<FenFault> = None;
                    if bare.sound().is_ok() {
                        let with = |f: &dyn Fn(&mut Pos)| -> bool {
                            let mut x = bare.clone();
                            f(&mut x);
                            x.sound().is_err()
                        };
                        let wrong = [
                            (FenFault::Castling, raw.rights.iter().flatten().any(|r| r.is_some()) && with(&|x| x.rights = raw.rights)),
                            (FenFault::EnPassant, raw.ep.is_some() && with(&|x| x.ep = raw.ep)),
                            (FenFault::HalfMove, raw.hm > 100),
                            (FenFault::FullMove, raw.fm == 0),
                        ];
                        if wrong.iter().filter(|w| w.1).count() == 1 {
                            let f = wrong.iter().find(|w| w.1).unwrap().0;
                            let mut fixed = raw.clone();
                            match f {
                                FenFault::Castling => fixed.rights = [[None; 2]; 2],
                                FenFault::EnPassant => fixed.ep = None,
                                FenFault::HalfMove => fixed.hm = 0,
                                _ => fixed.fm = 1,
                            }
                            if matches!(Entry::Shredder.call(&to_fen(&fixed, true)), Ok(Ok(_))) {
                                expect = Some(f);
                            }
                        }
                    }
                    if expect.is_some() {
                        t.nontrivial += 1;
                    }
                    let rec = to_fen(&raw, true);
                    check_text(&rec, Entry::Shredder, expect, sink, &mut t);
                    check_text(&rec, Entry::Parse, expect, sink, &mut t);
                    if raw.rights.iter().flatten().all(|r| matches!(r, None | Some(0) | Some(7))) && raw.rights[0][0] != Some(0) && raw.rights[1][0] != Some(0) && raw.rights[0][1] != Some(7) && raw.rights[1][1] != Some(7) {
                        // the same in plain notation (K/Q/k/q denote the h/a files)
                        let rec = to_fen(&raw, false);
                        check_text(&rec, Entry::Standard, expect, sink, &mut t);
                        check_text(&rec, Entry::Parse, expect, sink, &mut t);
                    }
                });
                t
            })
            .reduce(Tally::default, Tally::merge);
        total.absorb(t);
    }
    total
}

/// Long digit runs: every rank of a record prefixed / suffixed by d repeated n times (d in 1 2 4 8 9,
/// n = 1..=300 and a few very long runs): a rank whose files add up to 8 + 256k or 8 + 65536k must
/// still be rejected (cursor arithmetic in a narrow integer).
fn long_rank_universe(corpus: &[Pos], sink: &Sink) -> Tally {
    let jobs: Vec<(usize, usize)> = (0..corpus.len()).flat_map(|c| (0..8usize).map(move |r| (c, r))).collect();
    jobs.par_iter()
        .fold(Tally::default, |mut t, &(ci, rank_idx)| {
            let record = to_fen(&corpus[ci], true);
            let (placement, rest) = record.split_once(' ').unwrap();
            let ranks: Vec<&str> = placement.split('/').collect();
            let mut lens: Vec<usize> = (1..=300).collect();
            lens.extend([512, 1024, 2048, 4096, 8192, 16384, 32768, 65536]);
            for d in ['1', '2', '4', '8', '9'] {
                for &n in &lens {
                    if n > 300 && !(d == '8' || d == '1') {
                        continue;
                    }
                    let run: String = std::iter::repeat(d).take(n).collect();
                    for front in [true, false] {
                        let mut v: Vec<String> = ranks.iter().map(|x| x.to_string()).collect();
                        v[rank_idx] = if front { format!("{}{}", run, ranks[rank_idx]) } else { format!("{}{}", ranks[rank_idx], run) };
                        let text = format!("{} {}", v.join("/"), rest);
                        t.states += 1;
                        t.evals += 1;
                        for e in Entry::ALL {
                            check_text(&text, e, None, sink, &mut t);
                        }
                    }
                }
            }
            t
        })
        .reduce(Tally::default, Tally::merge)
}

/// Characters that Unicode-aware helpers could confuse with the ASCII alphabet of a record: every
/// ASCII character, every non-ASCII character whose lower-/upper-case mapping contains an ASCII
/// character (e.g. U+212A KELVIN SIGN), every Unicode white-space and numeric character and the
/// full-width forms. `all`: every Unicode scalar value.
pub fn unicode_menu(all: bool) -> Vec<char> {
    (0..0x110000u32)
        .filter_map(char::from_u32)
        .filter(|&c| {
            all || c.is_ascii()
                || c.to_lowercase().any(|x| x.is_ascii())
                || c.to_uppercase().any(|x| x.is_ascii())
                || c.is_whitespace()
                || c.is_numeric()
                || ('\u{ff01}'..='\u{ff5e}').contains(&c)
        })
        .collect()
}

/// Every character position of a record substituted by every character of the menu.
fn unicode_universe(records: &[String], menu: &[char], sink: &Sink) -> Tally {
    let jobs: Vec<(usize, usize)> = records.iter().enumerate().flat_map(|(ri, r)| (0..r.chars().count()).map(move |i| (ri, i))).collect();
    jobs.par_iter()
        .fold(Tally::default, |mut t, &(ri, pos)| {
            let chars: Vec<char> = records[ri].chars().collect();
            let mut text = String::with_capacity(records[ri].len() + 4);
            for &c in menu {
                if c == chars[pos] {
                    continue;
                }
                text.clear();
                for (i, &x) in chars.iter().enumerate() {
                    text.push(if i == pos { c } else { x });
                }
                t.states += 1;
                t.evals += 1;
                for e in Entry::ALL {
                    check_text(&text, e, None, sink, &mut t);
                }
            }
            t
        })
        .reduce(Tally::default, Tally::merge)
}

/// Every field of a record padded, before or after, with 1..=600 copies of a character: lengths
/// and values that wrap in a narrow integer must not make a malformed record acceptable.
fn padded_field_universe(records: &[String], sink: &Sink) -> Tally {
    let pads: [char; 8] = [' ', '0', '1', '8', '-', 'K', '/', '\u{e9}'];
    let jobs: Vec<(usize, usize, usize)> = (0..records.len()).flat_map(|r| (0..6usize).flat_map(move |f| (0..pads.len()).map(move |p| (r, f, p)))).collect();
    jobs.par_iter()
        .fold(Tally::default, |mut t, &(ri, fi, pi)| {
            let fields: Vec<&str> = records[ri].split(' ').collect();
            if fields.len() != 6 {
                return t;
            }
            for n in 1..=600usize {
                let run: String = std::iter::repeat(pads[pi]).take(n).collect();
                for front in [true, false] {
                    let mut v: Vec<String> = fields.iter().map(|x| x.to_string()).collect();
                    v[fi] = if front { format!("{}{}", run, fields[fi]) } else { format!("{}{}", fields[fi], run) };
                    let text = v.join(" ");
                    t.states += 1;
                    t.evals += 1;
                    for e in Entry::ALL {
                        check_text(&text, e, None, sink, &mut t);
                    }
                }
            }
            t
        })
        .reduce(Tally::default, Tally::merge)
}

fn short_universe(sink: &Sink) -> Tally {
    let alpha40 = crate::props::pure::ALPHA40;
    alpha40
        .par_iter()
        .fold(Tally::default, |mut t, &first| {
            let mut cur = String::new();
            cur.push(first);
            fn rec(alphabet: &[char], left: usize, cur: &mut String, f: &mut dyn FnMut(&str)) {
                f(cur);
                if left == 0 {
                    return;
                }
                for &c in alphabet {
                    cur.push(c);
                    rec(alphabet, left - 1, cur, f);
                    cur.pop();
                }
            }
            rec(alpha40, 2, &mut cur, &mut |s| {
                t.states += 1;
                t.evals += 1;
                for e in Entry::ALL {
                    check_text(s, e, None, sink, &mut t);
                }
            });
            t
        })
        .reduce(Tally::default, Tally::merge)
}

fn run_c08(run: &mut Run) {
    let q = run.quick();
    run.rule = "strings: every single-character deletion / substitution / insertion (43-symbol FEN alphabet incl. a multi-byte character) at every position of the canonical Shredder and plain records of a corpus of accepted boards, every field dropped / duplicated / emptied / swapped, truncation after each field, extra trailing fields (thorough: all PAIRS of edits for the first records); the full Cartesian product of per-field menus of well-formed and malformed alternatives; every string of length <=3 over a 40-symbol alphabet; each through from_fen(false), from_fen(true) and str::parse. Oracle: no panic; Ok(b) => reference decoder accepts the text and alpha(b) is the denoted position; expected error asserted only for single-field faults of records the entry point otherwise accepts, for truncations and for extra fields. non-trivial = cases with an asserted error attribution".into();
    run.assume("'all Unicode strings' is restricted to the enumerated string families");
    run.assume("digits 0-9 in a rank denote that many empty files; numeric fields are decimal with optional leading '+' and leading zeros (may be accepted or rejected; if accepted must denote that value)");
    let mut corpus = crate::universes::corpus_positions(true, &run.sink);
    if q {
        corpus.truncate(60);
    } else {
        let more = crate::universes::corpus_positions(false, &run.sink);
        corpus = more.into_iter().step_by(3).collect();
    }
    let t0 = Instant::now();
    let t = edit_universe(&corpus, if q { 0 } else { 4 }, &run.sink);
    run.add("T-FENEDIT", json!({"corpus_records": corpus.len(), "alphabet": SIGMA.len(), "edit_distance": if q { "1" } else { "1 (all records), 2 (first 4 records)" }, "entry_points": 3}), true, t0, t);
    let t0 = Instant::now();
    let t = menu_universe(&run.sink);
    run.add("T-FENMENU", json!({"menu_sizes": menus().iter().map(|m| m.len()).collect::<Vec<_>>(), "product": "complete", "single_fault_bases": 4}), true, t0, t);
    let t0 = Instant::now();
    let raws: Vec<Box<dyn crate::universes::RawUniverse>> = vec![
        Box::new(crate::universes::Castle { extra: if q { 0 } else { 1 }, ek_rank2: false }),
        Box::new(crate::universes::Edit { corpus: corpus.iter().take(if q { 40 } else { 400 }).cloned().collect(), two_edits_for_first: 0 }),
        Box::new(crate::universes::EpUniverse::small()),
        Box::new(crate::universes::LongFen),
    ];
    let t = raw_record_universe(&raws, &run.sink);
    run.add("T-FENRAW", json!({"records_of": "S-CASTLE (incl. king off the back rank, every subset of rights), one-edit neighbours of corpus boards (S-EDIT), S-EP(small), S-LONGFEN", "expectation": "field named when exactly one of castling / en passant / half-move / full-move is unsupported and the record is otherwise accepted"}), true, t0, t);
    let t0 = Instant::now();
    let lc: Vec<Pos> = corpus.iter().take(if q { 2 } else { 12 }).cloned().collect();
    let t = long_rank_universe(&lc, &run.sink);
    run.add("T-FENLONG", json!({"records": lc.len(), "ranks": 8, "digit": "1 2 4 8 9", "run_lengths": "1..=300 (all digits), 512..65536 by powers of two (digits 1 and 8)", "position": "before and after the rank"}), true, t0, t);
    let t0 = Instant::now();
    let mut recs: Vec<String> = vec!["rnbqkbnr/pppppppp/8/8/8/8/PPPPPPPP/RNBQKBNR w KQkq - 0 1".to_string(), "r3k2r/p1ppqpb1/bn2pnp1/3PN3/1p2P3/2N2Q1p/PPPBBPPP/R3K2R w HAha - 12 34".to_string(), "4k3/8/8/8/3Pp3/8/8/4K3 b - d3 0 57".to_string()];
    recs.extend(corpus.iter().take(if q { 3 } else { 20 }).map(|p| to_fen(p, true)));
    let menu = unicode_menu(false);
    let t = unicode_universe(&recs, &menu, &run.sink);
    run.add("T-FENUNICODE", json!({"records": recs.len(), "menu": menu.len(), "menu_is": "all ASCII; non-ASCII characters whose case mappings contain ASCII; Unicode white space; Unicode numeric characters; full-width forms", "edit": "every character position substituted by every menu character", "entry_points": 3}), true, t0, t);
    let t0 = Instant::now();
    let t = padded_field_universe(&recs[..if q { 3 } else { recs.len().min(8) }], &run.sink);
    run.add("T-FENPAD", json!({"records": if q { 3 } else { recs.len().min(8) }, "fields": 6, "pad_characters": "space 0 1 8 - K / U+E9", "pad_counts": "1..=600", "position": "before and after the field", "entry_points": 3}), true, t0, t);
    if !q {
        let t0 = Instant::now();
        let all = unicode_menu(true);
        let t = unicode_universe(&recs[..2], &all, &run.sink);
        run.add("T-FENUNICODE(all scalar values)", json!({"records": 2, "menu": all.len(), "edit": "every character position substituted by every Unicode scalar value", "entry_points": 3}), true, t0, t);
    }
    let t0 = Instant::now();
    let t = short_universe(&run.sink);
    run.add("T-SHORT", json!({"alphabet": 40, "max_len": 3}), true, t0, t);
}

pub fn run(run: &mut Run) -> Result<(), String> {
    match run.prop.as_str() {
        "C08" => run_c08(run),
        "C20" => c20::run(run),
        _ => unreachable!(),
    }
    Ok(())
}

pub fn replay(prop: &str, body: &Value) -> Result<(), String> {
    let local = Sink::new(prop, 0);
    let mut t = Tally::default();
    let case = &body["case"];
    let monitor = body["monitor"].as_str().unwrap_or("");
    match prop {
        "C08" => {
            let text = case["text"].as_str().ok_or("MACHINERY: no text")?;
            let entry = Entry::from_name(case["entry"].as_str().unwrap_or("")).ok_or("MACHINERY: entry")?;
            if case["kind"] == "canonical" {
                if let Ok(Err(e)) = entry.call(text) {
                    return Err(format!("[C08.canonical] {} rejects the canonical record {:?} ({})", entry.name(), text, e));
                }
                return Ok(());
            }
            let expect = match case["expect"].as_str() {
                None => None,
                Some(s) => [FenFault::TooFewFields, FenFault::TooManyFields, FenFault::Board, FenFault::Side, FenFault::Castling, FenFault::EnPassant, FenFault::HalfMove, FenFault::FullMove].into_iter().find(|f| format!("{:?}", f) == s),
            };
            check_text(text, entry, expect, &local, &mut t);
        }
        "C20" => c20::replay(case, &local, &mut t)?,
        _ => unreachable!(),
    }
    for v in local.all_violations() {
        if v.monitor == monitor {
            return Err(format!("[{}] {}", v.monitor, v.detail));
        }
    }
    Ok(())
}
