//! Universe generators: roots for reachability exploration and raw builder states for the
//! constructed-position universes. Everything is a deterministic enumeration — nothing is sampled.

use crate::bridge::*;
use crate::explore::*;
use crate::report::{Sink, Tally};
use cozy_chess::*;
use rayon::prelude::*;
use refmodel::{sq, Col, Kind, Mv, Pos, Sq, LONG, SHORT};
use serde_json::{json, Value};

// ------------------------------------------------------------------------------------------------
// reachability roots

pub const KIWIPETE: &str = "r3k2r/p1ppqpb1/bn2pnp1/3PN3/1p2P3/2N2Q1p/PPPBBPPP/R3K2R w KQkq - 0 1";

pub const MID_ROOTS: &[&str] = &[
    KIWIPETE,
    "8/2p5/3p4/KP5r/1R3p1k/8/4P1P1/8 w - - 0 1",
    "r3k2r/Pppp1ppp/1b3nbN/nP6/BBP1P3/q4N2/Pp1P2PP/R2Q1RK1 w kq - 0 1",
    "r2q1rk1/pP1p2pp/Q4n2/bbp1p3/Np6/1B3NBn/pPPP1PPP/R3K2R b KQ - 0 1",
    "rnbq1k1r/pp1Pbppp/2p5/8/2B5/8/PPP1NnPP/RNBQK2R w KQ - 1 8",
    "r4rk1/1pp1qppp/p1np1n2/2b1p1B1/2B1P1b1/P1NP1N2/1PP1QPPP/R4RK1 w - - 0 10",
    "1rqbkrbn/1ppppp1p/1n6/p1N3p1/8/2P4P/PP1PPPP1/1RQBKRBN w FBfb - 0 9",
    "rbbqn1kr/pp2p1pp/6n1/2pp1p2/2P4P/P7/BP1PPPP1/R1BQNNKR w HAha - 0 9",
    "rqbbknr1/1ppp2pp/p5n1/4pp2/P7/1PP5/1Q1PPPPP/R1BBKNRN w GAga - 0 9",
    "rkb2bnr/pp2pppp/2p1n3/3p4/q2P4/5NP1/PPP1PP1P/RKBNQBR1 w Aha - 0 9",
    // the SAN test root of the repository
    "3k2n1/7P/Q3p3/4BPp1/Q1Q4q/8/5B2/R3K2R w KQ g6 0 1",
    // promotion with capture onto a right's square, each wing and colour
    "r3k2r/1P4P1/8/8/8/8/1p4p1/R3K2R w KQkq - 0 1",
    "r3k2r/1P4P1/8/8/8/8/1p4p1/R3K2R b KQkq - 0 1",
    // en passant: horizontal pin through both pawns
    "8/8/8/8/k2Pp2R/8/8/4K3 b - d3 0 1",
    "4k3/8/8/K2pP2r/8/8/8/8 w - d6 0 2",
    // en passant: diagonal pin, capture along / off the pin line
    "b3k3/8/8/2pP4/8/8/8/7K w - c6 0 2",
    "b3k3/8/8/3Pp3/8/8/8/7K w - e6 0 2",
    // en passant captures the checking pawn
    "8/8/8/2k5/3Pp3/8/8/4K3 b - d3 0 1",
    "4k3/8/8/3pP3/2K5/8/8/8 w - d6 0 2",
    // en passant while a slider checks through the vacated origin square
    "8/8/8/8/3Ppk2/8/8/2B1K3 b - d3 0 1",
    // one ply BEFORE a double push that uncovers a slider check / allows an en-passant capture
    "8/8/8/8/4pk2/8/3P4/2B1K3 w - - 0 1",
    "4k3/3p4/8/4P3/8/8/8/3RK3 b - - 0 1",
    "2b1k3/3p4/8/4P3/8/7K/8/8 b - - 0 1",
    "3r3k/4p3/8/3P1P2/8/8/8/3K4 b - - 0 1",
    "1k6/8/8/8/1p1p4/8/2P5/1Q5K w - - 0 1",
    // Chess960 castling geometry: king or rook not moving, swapping, pinned castling rook,
    // attacked b-file, inner rook, both colours
    "4k3/8/8/8/8/8/8/6KR w H - 0 1",
    "4k3/8/8/8/8/8/8/5KR1 w G - 0 1",
    "4k3/8/8/8/8/8/8/1RK5 w B - 0 1",
    "4k3/8/8/8/8/8/8/rRK5 w B - 0 1",
    "1r2k3/8/8/8/8/8/8/R3K3 w Q - 0 1",
    "4k3/8/8/8/8/8/8/RR2K3 w B - 0 1",
    "1rk3r1/8/8/8/8/8/8/R2K3R w HAgb - 0 1",
    "1rk3r1/8/8/8/8/8/8/R2K3R b HAgb - 0 1",
    "r3k2r/8/8/8/8/8/8/R3K2R w KQkq - 0 1",
    "r3k2r/8/8/8/8/8/8/R3K2R b KQkq - 0 1",
    // castling through / into attack
    "4k3/8/8/8/8/8/5r2/R3K2R w KQ - 0 1",
    "3rk3/8/8/8/8/8/8/R3K2R w KQ - 0 1",
    // mates / stalemates one ply away, stalemate, double check, knight-promotion check
    "7k/5Q2/6K1/8/8/8/8/8 w - - 0 1",
    "7k/5Q2/6K1/8/8/8/8/8 b - - 0 1",
    "6k1/5ppp/8/8/8/8/8/R3K3 w Q - 0 1",
    "4k3/8/8/8/8/5n2/4r3/4K3 w - - 0 1",
    "8/5P1k/8/8/8/8/8/4K3 w - - 0 1",
    "4k3/8/8/8/8/8/5p1K/8 b - - 0 1",
    // maximal number of batches: 16 mobile pieces, two en-passant capturers, castling available
    "4k3/8/8/1N1PpP2/7N/8/PPPBBPPP/R2QK2R w KQ e6 0 1",
    "4k3/8/8/1N1PpP2/7N/2P5/PP1BBPPP/R2QK2R w KQ e6 0 1",
    "r2qk2r/pp1bbppp/2p5/7n/1n1pPp2/8/8/4K3 b kq e3 0 1",
    "r2qk2r/pppbbppp/8/7n/1n1pPp2/8/8/4K3 b kq e3 0 1",
    // a pinned-piece zoo
    "4k3/4r3/8/q7/1P6/2N5/3PB3/r2BK2q w - - 0 1",
    "Q2bk2R/3p4/2N5/1P6/B7/8/4R3/4K3 b - - 0 1",
];

/// Curated game lines from real start positions (Scharnagl numbers; 518 = orthodox). Every prefix
/// is a root, so every root is provably reachable by legal play.
pub const LINES: &[(u32, u32, &str)] = &[
    // a white double push uncovering a bishop check (en-passant square + slider check through the origin)
    (518, 518, "a2a3 d7d6 h2h3 e8d7 h3h4 d7c6 g2g3 c6b5 e2e4 b5b6 e4e5 f7f5 e5f6"),
    // the mirrored case for Black
    (518, 518, "d2d3 a7a6 e1d2 h7h6 d2c3 h6h5 c3b4 e7e5 b4b3 e5e4 f2f4 e4f3"),
    // en passant available, declined, and rights lost by rook/king moves
    (518, 518, "e2e4 a7a6 e4e5 d7d5 h2h4 f7f5 e5f6 g7f6 h1h3 a8a7 h3a3 e8f7 e1e2 f7g7"),
    // castling on both wings for both sides
    (518, 518, "e2e4 e7e5 g1f3 g8f6 f1c4 f8c5 e1h1 e8h8 d2d3 d7d6"),
    (518, 518, "d2d4 d7d5 b1c3 b8c6 c1f4 c8f5 d1d2 d8d7 e1a1 e8a8 d2e1 d7e8"),
    // a pawn promoting with capture on a right's square
    (518, 518, "a2a4 b7b5 a4b5 a7a6 b5a6 c8b7 a6b7 b8c6 b7a8q d8a8"),
    (518, 518, "h2h4 g7g5 h4g5 h7h6 g5h6 g8f6 h6h7 f6g8 h7g8n h8g8"),
    // fool's mate, scholar's mate
    (518, 518, "f2f3 e7e5 g2g4 d8h4"),
    (518, 518, "e2e4 e7e5 d1h5 b8c6 f1c4 g8f6 h5f7"),
    // Chess960: a double push uncovering a long-diagonal bishop (start 1 = BQNBNRKR)
    (1, 1, "h2h3 g7g6 h3h4 g8g7 b2b4 g7g8 b4b5 c7c5 b5c6"),
    // Chess960 starts 0 (BBQNNRKR) and 959 (RKRNNQBB)
    (0, 0, "e1d3 e8d6 d1e3 d8e6 g2g3 g7g6"),
    (959, 959, "d1e3 d8e6 e1d3 e8d6 f2f3 f7f6"),
    // double Chess960 with different set-ups
    (518, 0, "e2e4 e8d6 g1f3 d8e6 f1c4 g7g6 e1h1 c7c5"),
];

pub fn line_roots(sink: &Sink) -> Vec<(RootDesc, Board)> {
    let mut out = Vec::new();
    for (w, b, line) in LINES {
        let moves: Vec<String> = line.split_whitespace().map(|s| s.to_string()).collect();
        for n in 0..=moves.len() {
            let rd = RootDesc::Line(*w, *b, moves[..n].to_vec());
            match rd.board() {
                Ok(bd) => out.push((rd, bd)),
                Err(e) => {
                    sink.start_failed("curated legal game line cannot be replayed", json!({"kind": "start", "root": rd.json()}), e);
                    break;
                }
            }
        }
    }
    out
}

/// (placement, castling field): positions whose clocks are varied over 98 / 99 / 100 and 65534 / 65535
/// R-WALK: deterministic long lines from real start positions. From start (w, b) the line picks, at
/// ply p, the legal move with index (mult * p + w + 3 * b) mod #moves in the reference model's
/// sorted move list (and passes with a null move every `null_every`-th ply when not in check). Every
/// position on the line is a root, so every root is provably reachable (when the line has no null
/// move) and carries 10-40 plies of incremental history. Nothing is random: the schedule is fixed.
pub fn walk_roots(starts: &[(u32, u32)], plies: usize, mult: usize, null_every: usize, root_every: usize, sink: &Sink) -> Vec<(RootDesc, Board)> {
    walk_roots_mode(starts, plies, mult, null_every, root_every, false, sink)
}

/// `aggressive`: the side to move picks (by the same index schedule) among its CHECKING moves when it
/// has any, and among its captures otherwise when it has any: lines full of checks, evasions with
/// many men on the board, and mates.
pub fn walk_roots_mode(starts: &[(u32, u32)], plies: usize, mult: usize, null_every: usize, root_every: usize, aggressive: bool, sink: &Sink) -> Vec<(RootDesc, Board)> {
    let per_start: Vec<Vec<(RootDesc, Board)>> = starts
        .par_iter()
        .map(|&(w, b)| {
            let mut out = Vec::new();
            let mut board = match RootDesc::Dfrc(w, b).board() {
                Ok(bd) => bd,
                Err(e) => {
                    sink.start_failed("double Chess960 start position cannot be constructed", json!({"kind": "start", "root": RootDesc::Dfrc(w, b).json()}), e);
                    return out;
                }
            };
            let mut moves: Vec<String> = Vec::new();
            for p in 0..plies {
                let pos = alpha(&board);
                let legal = pos.legal_moves();
                if legal.is_empty() {
                    break;
                }
                let act = if null_every > 0 && p % null_every == null_every - 1 && !pos.in_check(pos.stm) {
                    Act::Null
                } else {
                    let mut pool: Vec<refmodel::Mv> = Vec::new();
                    if aggressive {
                        pool = legal.iter().copied().filter(|m| { let a = pos.make(*m); a.in_check(a.stm) }).collect();
                        if pool.is_empty() {
                            pool = legal.iter().copied().filter(|m| pos.is_capture(*m)).collect();
                        }
                    }
                    if pool.is_empty() {
                        pool = legal.clone();
                    }
                    Act::Move(pool[(mult * p + w as usize + 3 * b as usize) % pool.len()])
                };
                board = match apply(&board, act) {
                    Ok(bd) => bd,
                    Err(_) => break,
                };
                moves.push(act.text());
                if (p + 1) % root_every == 0 {
                    out.push((RootDesc::Line(w, b, moves.clone()), board.clone()));
                }
            }
            out
        })
        .collect();
    per_start.into_iter().flatten().collect()
}

/// R-MARCH: deterministic "king march" lines from real start positions (no null moves, so every
/// root is provably reachable). One side (White on even white-numbers, Black on odd) walks its king
/// towards a corner of the ENEMY back rank: among its legal king moves it plays the one that brings
/// the king closest to the target (ties by the index schedule); when no king move makes progress it
/// plays a scheduled non-king, non-rook move. The other side never moves its king or rooks while it
/// has another move, so its castling rights survive: positions with a king deep in the enemy camp
/// next to rooks that still carry their rights.
pub fn march_roots(starts: &[(u32, u32)], plies: usize, root_every: usize, sink: &Sink) -> Vec<(RootDesc, Board)> {
    let per_start: Vec<Vec<(RootDesc, Board)>> = starts
        .par_iter()
        .map(|&(w, b)| {
            let mut out = Vec::new();
            let mut board = match RootDesc::Dfrc(w, b).board() {
                Ok(bd) => bd,
                Err(e) => {
                    sink.start_failed("double Chess960 start position cannot be constructed", json!({"kind": "start", "root": RootDesc::Dfrc(w, b).json()}), e);
                    return out;
                }
            };
            let marcher = if w % 2 == 0 { Col::W } else { Col::B };
            let target = sq(if (w / 2) % 2 == 0 { 0 } else { 7 }, marcher.other().back_rank());
            let dist = |s: Sq| -> i32 { (refmodel::file_of(s) as i32 - refmodel::file_of(target) as i32).abs().max((refmodel::rank_of(s) as i32 - refmodel::rank_of(target) as i32).abs()) };
            let mut moves: Vec<String> = Vec::new();
            for p in 0..plies {
                let pos = alpha(&board);
                let legal = pos.legal_moves();
                if legal.is_empty() {
                    break;
                }
                let idx = 7 * p + w as usize + 3 * b as usize;
                let quiet: Vec<refmodel::Mv> = legal.iter().copied().filter(|m| !matches!(pos.sq[m.from as usize], Some((Kind::K, _)) | Some((Kind::R, _)))).collect();
                let mv = if pos.stm == marcher {
                    let k = pos.king_sq(marcher).unwrap();
                    let mut best: Vec<refmodel::Mv> = Vec::new();
                    let mut best_d = dist(k);
                    for m in legal.iter().copied().filter(|m| m.from == k && !pos.is_castle(*m)) {
                        let d = dist(m.to);
                        if d < best_d {
                            best_d = d;
                            best = vec![m];
                        } else if d == best_d && !best.is_empty() {
                            best.push(m);
                        }
                    }
                    if !best.is_empty() {
                        best[idx % best.len()]
                    } else if !quiet.is_empty() {
                        quiet[idx % quiet.len()]
                    } else {
                        legal[idx % legal.len()]
                    }
                } else if !quiet.is_empty() {
                    quiet[idx % quiet.len()]
                } else {
                    legal[idx % legal.len()]
                };
                board = match apply(&board, Act::Move(mv)) {
                    Ok(bd) => bd,
                    Err(_) => break,
                };
                moves.push(Act::Move(mv).text());
                if (p + 1) % root_every == 0 {
                    out.push((RootDesc::Line(w, b, moves.clone()), board.clone()));
                }
            }
            out
        })
        .collect();
    per_start.into_iter().flatten().collect()
}

pub const CLOCK_BASES: &[(&str, &str)] = &[
    ("r3k2r/p1ppqpb1/bn2pnp1/3PN3/1p2P3/2N2Q1p/PPPBBPPP/R3K2R", "KQkq"),
    ("4k3/7p/8/8/8/8/4P3/4K2R", "K"),
    // quiet checks and a quiet mate available to either side
    ("r3k3/8/8/8/8/8/8/R3K3", "Qq"),
    ("6k1/5ppp/8/8/8/8/5PPP/R3K3", "Q"),
    // the longest records: 32 pieces, every empty square isolated (71-character placement), four rights
    ("r1b1k1r1/p1p1p1p1/1p1p1p1p/n1n1q1b1/N1N1Q1B1/1P1P1P1P/P1P1P1P1/R1B1K1R1", "GAga"),
    ("r1b1k2r/p1p1p1p1/1p1p1p1p/n1n1q1b1/N1N1Q1B1/1P1P1P1P/P1P1P1P1/R1B1K2R", "KQkq"),
];

pub fn fen_roots(fens: &[String], sink: &Sink) -> Vec<(RootDesc, Board)> {
    let mut out = Vec::new();
    let mut rejected = 0;
    for f in fens {
        let rd = RootDesc::Fen(f.clone());
        match rd.board() {
            Ok(b) => out.push((rd, b)),
            Err(e) => {
                rejected += 1;
                sink.note(format!("root skipped (rejected by the library): {}", e));
            }
        }
    }
    // Curated FEN roots are sound positions, but "sound => accepted" is not demanded, so single
    // rejections are only noted. If the library rejects a large part of them, exploring the rest
    // would be a vacuous pass: no verdict.
    if rejected * 3 > fens.len() {
        sink.fatal(format!("{} of {} curated root positions are rejected by the library", rejected, fens.len()));
    }
    out
}

pub fn start_roots(sink: &Sink) -> Vec<(RootDesc, Board)> {
    let rd = RootDesc::Dfrc(518, 518);
    match rd.board() {
        Ok(b) => vec![(rd, b)],
        Err(e) => {
            sink.start_failed("orthodox start position cannot be constructed", json!({"kind": "start", "root": rd.json()}), e);
            Vec::new()
        }
    }
}

pub fn mid_roots(sink: &Sink) -> Vec<(RootDesc, Board)> {
    fen_roots(&MID_ROOTS.iter().map(|s| s.to_string()).collect::<Vec<_>>(), sink)
}

pub fn clock_roots(sink: &Sink) -> Vec<(RootDesc, Board)> {
    let mut fens = Vec::new();
    for (base, rights) in CLOCK_BASES.iter() {
        for stm in ["w", "b"] {
            for hm in [98, 99, 100] {
                for fm in [65534u32, 65535] {
                    fens.push(format!("{} {} {} - {} {}", base, stm, rights, hm, fm));
                }
            }
        }
    }
    fen_roots(&fens, sink)
}

pub fn roots_960(sink: &Sink) -> Vec<(RootDesc, Board)> {
    let mut out = Vec::new();
    for n in 0..960u32 {
        let rd = RootDesc::Dfrc(n, n);
        match rd.board() {
            Ok(b) => out.push((rd, b)),
            Err(e) => sink.start_failed("Chess960 start position cannot be constructed", json!({"kind": "start", "root": rd.json()}), format!("chess960_startpos({}): {}", n, e)),
        }
    }
    out
}

/// all 960 x 960 double-Chess960 starts, as a parallel iterator (stateless exploration);
/// `stride` > 1 takes every stride-th black number per white number (still deterministic)
pub fn dfrc_roots<'a>(sink: &'a Sink, white: std::ops::Range<u32>, black_stride: u32) -> impl ParallelIterator<Item = (RootDesc, Board)> + 'a {
    white.into_par_iter().flat_map_iter(move |w| {
        (0..960u32).filter(move |b| (b + w) % black_stride == 0).filter_map(move |b| {
            let rd = RootDesc::Dfrc(w, b);
            match rd.board() {
                Ok(bd) => Some((rd, bd)),
                Err(e) => {
                    sink.start_failed("double Chess960 start position cannot be constructed", json!({"kind": "start", "root": rd.json()}), format!("double_chess960_startpos({}, {}): {}", w, b, e));
                    None
                }
            }
        })
    })
}

// ------------------------------------------------------------------------------------------------
// raw (constructed) universes

pub trait RawUniverse: Sync {
    fn name(&self) -> String;
    fn bounds(&self) -> Value;
    fn parts(&self) -> usize;
    fn part(&self, i: usize, f: &mut dyn FnMut(Pos));
    /// Some(moves): only these moves are expanded at the candidate itself (forced first ply);
    /// deeper plies are unrestricted
    fn first_moves(&self, _p: &Pos) -> Option<Vec<Mv>> {
        None
    }
}

/// Called for every candidate with what the builder answered.
pub trait CandMonitor: Sync {
    fn candidate(&self, raw: &Pos, built: &Result<Result<Board, BoardBuilderError>, String>, t: &mut Tally, s: &Sink);
}

pub struct NoCand;
impl CandMonitor for NoCand {
    fn candidate(&self, _: &Pos, _: &Result<Result<Board, BoardBuilderError>, String>, _: &mut Tally, _: &Sink) {}
}

/// Run a raw universe: every candidate goes to the candidate monitor; accepted ones become roots of
/// a stateless exploration to `bounds`.
pub fn run_raw(u: &dyn RawUniverse, bounds: &Bounds, mon: &dyn Monitor, cand: &dyn CandMonitor, sink: &Sink) -> Tally {
    (0..u.parts())
        .into_par_iter()
        .fold(Tally::default, |mut t, i| {
            u.part(i, &mut |raw: Pos| {
                if sink.too_many() {
                    return;
                }
                t.evals += 1;
                let built = build(&raw);
                cand.candidate(&raw, &built, &mut t, sink);
                match built {
                    Ok(Ok(board)) => {
                        t.hit("builder-accepted");
                        let first = u.first_moves(&raw);
                        let rd = RootDesc::Raw(raw);
                        if sink.want_sample(t.evals) {
                            sink.sample(|| json!({"universe": u.name(), "state": shredder(&board), "root": rd.json()}));
                        }
                        match first {
                            None => dfs(&rd, &board, bounds, mon, sink, &mut t),
                            Some(first) => dfs_first(&rd, &board, bounds, mon, sink, &mut t, &first),
                        }
                    }
                    Ok(Err(_)) => t.hit("builder-rejected"),
                    Err(_) => t.hit("builder-panicked"),
                }
            });
            t
        })
        .reduce(Tally::default, Tally::merge)
}

fn put(p: &mut Pos, s: Sq, k: Kind, c: Col) {
    p.sq[s as usize] = Some((k, c));
}

pub const NONKING: [Kind; 5] = [Kind::P, Kind::N, Kind::B, Kind::R, Kind::Q];

/// flag variants that the geometry of (piece on s) allows: a castling right when an own rook and
/// king share the back rank; an en-passant square behind a pawn on its fourth rank
fn flag_variants(base: &Pos, f: &mut dyn FnMut(Pos)) {
    f(base.clone());
    for c in Col::ALL {
        if let Some(k) = base.king_sq(c) {
            if refmodel::rank_of(k) == c.back_rank() && base.count(Kind::K, c) == 1 {
                for file in 0..8u8 {
                    if base.sq[sq(file, c.back_rank()) as usize] == Some((Kind::R, c)) {
                        let wing = if file > refmodel::file_of(k) { SHORT } else { LONG };
                        let mut v = base.clone();
                        v.rights[c as usize][wing] = Some(file);
                        f(v);
                    }
                }
            }
        }
    }
    let them = base.stm.other();
    for file in 0..8u8 {
        if base.sq[sq(file, them.rel_rank(3)) as usize] == Some((Kind::P, them)) {
            let mut v = base.clone();
            v.ep = Some(sq(file, them.rel_rank(2)));
            f(v);
        }
    }
}

/// K + k + one piece of any kind/colour, both sides to move, plus flag variants.
pub struct ThreeMen {
    /// restrict the black king to these squares (None = all 64)
    pub bk: Option<Vec<Sq>>,
}
impl RawUniverse for ThreeMen {
    fn name(&self) -> String {
        "S-3MEN".into()
    }
    fn bounds(&self) -> Value {
        json!({"men": 3, "black_king_squares": self.bk.as_ref().map_or(64, |v| v.len()), "pieces": "P N B R Q of either colour", "sides": 2,
               "flags": "castling right where an own rook shares the back rank with the king, en-passant square behind a pawn on its 4th rank"})
    }
    fn parts(&self) -> usize {
        64
    }
    fn part(&self, wk: usize, f: &mut dyn FnMut(Pos)) {
        let wk = wk as Sq;
        let all: Vec<Sq> = (0..64).collect();
        let bks = self.bk.as_ref().unwrap_or(&all);
        for &bk in bks {
            if bk == wk {
                continue;
            }
            for s in 0..64u8 {
                if s == wk || s == bk {
                    continue;
                }
                for c in Col::ALL {
                    for k in NONKING {
                        for stm in Col::ALL {
                            let mut p = Pos::empty();
                            put(&mut p, wk, Kind::K, Col::W);
                            put(&mut p, bk, Kind::K, Col::B);
                            put(&mut p, s, k, c);
                            p.stm = stm;
                            flag_variants(&p, f);
                        }
                    }
                }
            }
        }
    }
}

/// K + k + two pieces.
pub struct FourMen {
    /// restrict both kings to these placements (None = all)
    pub kings: Option<Vec<(Sq, Sq)>>,
    pub with_flags: bool,
}
impl FourMen {
    fn king_pairs(&self) -> Vec<(Sq, Sq)> {
        match &self.kings {
            Some(v) => v.clone(),
            None => {
                let mut v = Vec::new();
                for a in 0..64u8 {
                    for b in 0..64u8 {
                        if a != b {
                            v.push((a, b));
                        }
                    }
                }
                v
            }
        }
    }
}
impl RawUniverse for FourMen {
    fn name(&self) -> String {
        "S-4MEN".into()
    }
    fn bounds(&self) -> Value {
        json!({"men": 4, "king_placements": self.king_pairs().len(), "pieces": "unordered pairs of P N B R Q of either colour on all squares", "sides": 2, "flag_variants": self.with_flags})
    }
    fn parts(&self) -> usize {
        self.king_pairs().len()
    }
    fn part(&self, i: usize, f: &mut dyn FnMut(Pos)) {
        let (wk, bk) = self.king_pairs()[i];
        let types: Vec<(Kind, Col)> = Col::ALL.iter().flat_map(|&c| NONKING.iter().map(move |&k| (k, c))).collect();
        for (i1, &(k1, c1)) in types.iter().enumerate() {
            for (i2, &(k2, c2)) in types.iter().enumerate() {
                if i2 < i1 {
                    continue;
                }
                for s1 in 0..64u8 {
                    if s1 == wk || s1 == bk {
                        continue;
                    }
                    let lo = if i1 == i2 { s1 + 1 } else { 0 };
                    for s2 in lo..64u8 {
                        if s2 == wk || s2 == bk || s2 == s1 {
                            continue;
                        }
                        for stm in Col::ALL {
                            let mut p = Pos::empty();
                            put(&mut p, wk, Kind::K, Col::W);
                            put(&mut p, bk, Kind::K, Col::B);
                            put(&mut p, s1, k1, c1);
                            put(&mut p, s2, k2, c2);
                            p.stm = stm;
                            if self.with_flags {
                                flag_variants(&p, f);
                            } else {
                                f(p);
                            }
                        }
                    }
                }
            }
        }
    }
}

/// K + k + `n` further pieces of any kind/colour on any squares, for a few king placements.
pub struct NMen {
    pub kings: Vec<(Sq, Sq)>,
    pub n: usize,
}
impl RawUniverse for NMen {
    fn name(&self) -> String {
        format!("S-{}MEN(kings={})", self.n + 2, self.kings.len())
    }
    fn bounds(&self) -> Value {
        json!({"men": self.n + 2, "king_placements": self.kings, "pieces": "every multiset of P N B R Q of either colour on every set of squares", "sides": 2})
    }
    fn parts(&self) -> usize {
        self.kings.len() * 640
    }
    fn part(&self, i: usize, f: &mut dyn FnMut(Pos)) {
        // part = (king placement, code of the first piece); code = type * 64 + square, strictly
        // increasing codes => each multiset / placement exactly once
        let (wk, bk) = self.kings[i / 640];
        let first = i % 640;
        let types: Vec<(Kind, Col)> = Col::ALL.iter().flat_map(|&c| NONKING.iter().map(move |&k| (k, c))).collect();
        let mut base = Pos::empty();
        put(&mut base, wk, Kind::K, Col::W);
        put(&mut base, bk, Kind::K, Col::B);
        fn rec(p: &Pos, types: &[(Kind, Col)], min_code: usize, left: usize, f: &mut dyn FnMut(Pos)) {
            if left == 0 {
                for stm in Col::ALL {
                    let mut q = p.clone();
                    q.stm = stm;
                    f(q);
                }
                return;
            }
            for code in min_code..640 {
                let (k, c) = types[code / 64];
                let s = (code % 64) as Sq;
                if p.sq[s as usize].is_some() {
                    continue;
                }
                let mut q = p.clone();
                q.sq[s as usize] = Some((k, c));
                rec(&q, types, code + 1, left - 1, f);
            }
        }
        if self.n == 0 {
            if first == 0 {
                rec(&base, &types, 0, 0, f);
            }
            return;
        }
        let (k, c) = types[first / 64];
        let s = (first % 64) as Sq;
        if base.sq[s as usize].is_some() {
            return;
        }
        let mut q = base.clone();
        q.sq[s as usize] = Some((k, c));
        rec(&q, &types, first + 1, self.n - 1, f);
    }
}

/// Chess960 castling geometry: for each colour, king on each back-rank file (plus, for rejection,
/// one rank up), short / long rook on every admissible file or absent, every subset of the rights
/// those rooks allow, enemy king on two far squares, both sides to move, and up to `extra` further
/// pieces from a menu on the three ranks nearest the king.
pub struct Castle {
    pub extra: usize,
    /// also put the enemy king on every square of the castler's second rank (it may then attack
    /// squares the castling king crosses)
    pub ek_rank2: bool,
}
const CASTLE_MENU: [(Kind, bool); 8] = [(Kind::N, true), (Kind::B, true), (Kind::R, true), (Kind::R, false), (Kind::B, false), (Kind::N, false), (Kind::Q, false), (Kind::P, false)];
impl RawUniverse for Castle {
    fn name(&self) -> String {
        format!("S-CASTLE(n<={}{})", self.extra, if self.ek_rank2 { ",ek on rank 2" } else { "" })
    }
    fn bounds(&self) -> Value {
        json!({"colours": 2, "king_files": 8, "king_off_back_rank_variants": true, "rook_files": "every admissible file or none, per wing", "rights": "every subset", "enemy_king_squares": if self.ek_rank2 { 12 } else { 4 }, "sides": 2,
               "extra_pieces_max": self.extra, "extra_menu": "own N, own B, own R (a second rook on the wing), enemy R B N Q P on the three ranks nearest the king"})
    }
    fn parts(&self) -> usize {
        2 * 8
    }
    fn part(&self, i: usize, f: &mut dyn FnMut(Pos)) {
        let c = Col::ALL[i / 8];
        let kf = (i % 8) as u8;
        let br = c.back_rank();
        let them = c.other();
        // two far squares, and the two corners of the mover's OWN back rank (a castled rook may
        // then give check along the back rank)
        let mut enemy_kings = vec![sq(6, them.back_rank()), sq(1, c.rel_rank(6)), sq(0, br), sq(7, br)];
        if self.ek_rank2 {
            enemy_kings.extend((0..8u8).map(|fl| sq(fl, c.rel_rank(1))));
        }
        let zone: Vec<Sq> = (0..3u8).flat_map(|r| (0..8u8).map(move |fl| sq(fl, c.rel_rank(r)))).collect();
        for king_rank_up in [false, true] {
            let ksq = if king_rank_up { sq(kf, c.rel_rank(1)) } else { sq(kf, br) };
            let shorts: Vec<Option<u8>> = std::iter::once(None).chain((kf + 1..8).map(Some)).collect();
            let longs: Vec<Option<u8>> = std::iter::once(None).chain((0..kf).map(Some)).collect();
            for &sr in &shorts {
                for &lr in &longs {
                    if king_rank_up && sr.is_none() && lr.is_none() {
                        continue;
                    }
                    for rs in [false, true] {
                        if rs && sr.is_none() {
                            continue;
                        }
                        for rl in [false, true] {
                            if rl && lr.is_none() {
                                continue;
                            }
                            if king_rank_up && !rs && !rl {
                                continue;
                            }
                            for &ek in &enemy_kings {
                                for stm in Col::ALL {
                                    let mut p = Pos::empty();
                                    put(&mut p, ksq, Kind::K, c);
                                    put(&mut p, ek, Kind::K, them);
                                    if let Some(x) = sr {
                                        put(&mut p, sq(x, br), Kind::R, c);
                                    }
                                    if let Some(x) = lr {
                                        put(&mut p, sq(x, br), Kind::R, c);
                                    }
                                    if rs {
                                        p.rights[c as usize][SHORT] = sr;
                                    }
                                    if rl {
                                        p.rights[c as usize][LONG] = lr;
                                    }
                                    p.stm = stm;
                                    self.extras(&p, c, &zone, 0, self.extra, f);
                                }
                            }
                        }
                    }
                }
            }
        }
    }
}
impl Castle {
    fn extras(&self, p: &Pos, c: Col, zone: &[Sq], from_idx: usize, left: usize, f: &mut dyn FnMut(Pos)) {
        f(p.clone());
        if left == 0 {
            return;
        }
        // pieces are added in increasing (zone index, menu index) order so that each set is
        // produced exactly once
        for zi in from_idx..zone.len() {
            let s = zone[zi];
            if p.sq[s as usize].is_some() {
                continue;
            }
            for &(k, own) in &CASTLE_MENU {
                let col = if own { c } else { c.other() };
                let mut q = p.clone();
                put(&mut q, s, k, col);
                self.extras(&q, c, zone, zi + 1, left - 1, f);
            }
        }
    }
}

/// En-passant configurations: mover's colour x EP file x capturing pawns left/right/both/none x
/// own king on a set of squares x enemy king on 4 squares x one extra piece (or none) x flag on/off.
pub struct EpUniverse {
    pub king_squares: Vec<Sq>,
    pub extra_kinds: Vec<(Kind, bool)>,
    /// emit the positions ONE PLY BEFORE the double push instead (pawn on its origin square, the
    /// pusher to move, no en-passant square): explored one ply, the push itself is then played by
    /// the library and the resulting board must behave like any other handed-out board
    pub prepush: bool,
}
impl EpUniverse {
    pub fn reduced() -> EpUniverse {
        // 24 squares: around/on the pawns' rank region, two on each side's second rank (where a
        // double push can uncover a rank check) and a spread elsewhere
        let ks: Vec<Sq> = vec![0, 3, 4, 7, 10, 12, 16, 19, 20, 23, 24, 27, 28, 31, 32, 35, 36, 39, 40, 44, 50, 52, 56, 60];
        EpUniverse { king_squares: ks, extra_kinds: vec![(Kind::R, false), (Kind::B, false)], prepush: false }
    }
    pub fn small() -> EpUniverse {
        EpUniverse { king_squares: vec![4, 10, 24, 27, 31, 36, 52, 60], extra_kinds: vec![(Kind::R, false), (Kind::B, false)], prepush: false }
    }
    /// own sliders as the extra piece: en-passant captures that open a line for the capturer's side
    pub fn own_sliders() -> EpUniverse {
        EpUniverse { king_squares: vec![4, 24, 27, 31, 36, 60], extra_kinds: vec![(Kind::B, true), (Kind::R, true), (Kind::Q, true)], prepush: false }
    }
    /// one ply before the double push: the capturer's king on EVERY square, enemy R / B as extra
    pub fn before_push(quick: bool) -> EpUniverse {
        if quick {
            // both back ranks and the four centre squares; one kind of extra piece
            let ks: Vec<Sq> = (0..8).chain(56..64).chain([27, 28, 35, 36]).collect();
            EpUniverse { king_squares: ks, extra_kinds: vec![(Kind::R, false)], prepush: true }
        } else {
            EpUniverse { king_squares: (0..64).collect(), extra_kinds: vec![(Kind::R, false), (Kind::B, false)], prepush: true }
        }
    }
    pub fn full() -> EpUniverse {
        EpUniverse {
            king_squares: (0..64).collect(),
            extra_kinds: vec![(Kind::R, false), (Kind::B, false), (Kind::Q, false), (Kind::N, false), (Kind::B, true), (Kind::R, true), (Kind::N, true)],
            prepush: false,
        }
    }
}
impl RawUniverse for EpUniverse {
    fn name(&self) -> String {
        format!("S-EP(kings={},extras={}{})", self.king_squares.len(), self.extra_kinds.len(), if self.prepush { ",before the push" } else { "" })
    }
    fn bounds(&self) -> Value {
        json!({"mover_colours": 2, "ep_files": 8, "capturers": "left/right/both/none", "own_king_squares": self.king_squares.len(), "enemy_king_squares": 4,
               "extra_piece": format!("none or one of {:?} (bool = mover's own) on any empty square", self.extra_kinds), "ep_flag": "set and unset"})
    }
    fn parts(&self) -> usize {
        2 * 8
    }
    fn part(&self, i: usize, f: &mut dyn FnMut(Pos)) {
        let c = Col::ALL[i / 8]; // the mover (who may capture en passant)
        let file = (i % 8) as u8;
        let them = c.other();
        let pawn = sq(file, c.rel_rank(4));
        let target = sq(file, c.rel_rank(5));
        let enemy_kings = [sq(0, them.back_rank()), sq(7, them.back_rank()), sq(4, c.rel_rank(6)), sq(3, c.rel_rank(2))];
        for caps in 0..4u8 {
            for &ok in &self.king_squares {
                for &ek in &enemy_kings {
                    let mut base = Pos::empty();
                    base.stm = c;
                    put(&mut base, pawn, Kind::P, them);
                    let mut clash = false;
                    for (bit, df) in [(1u8, -1i32), (2u8, 1i32)] {
                        if caps & bit != 0 {
                            match refmodel::step(pawn, df, 0) {
                                Some(s) => put(&mut base, s, Kind::P, c),
                                None => clash = true,
                            }
                        }
                    }
                    if clash || base.sq[ok as usize].is_some() || base.sq[ek as usize].is_some() || ok == ek {
                        continue;
                    }
                    put(&mut base, ok, Kind::K, c);
                    put(&mut base, ek, Kind::K, them);
                    let prepush = self.prepush;
                    let mut emit = |p: &Pos| {
                        if prepush {
                            // un-push: pawn back on its origin square, the pusher to move
                            let origin = sq(file, c.rel_rank(6));
                            if p.sq[origin as usize].is_some() || p.sq[target as usize].is_some() {
                                return;
                            }
                            let mut a = p.clone();
                            a.sq[pawn as usize] = None;
                            a.sq[origin as usize] = Some((Kind::P, them));
                            a.stm = them;
                            f(a);
                            return;
                        }
                        let mut a = p.clone();
                        a.ep = Some(target);
                        a.fm = 2;
                        f(a.clone());
                        // the same with a running half-move clock: accepted by parser, builder and
                        // set_halfmove_clock although play never produces it
                        a.hm = 7;
                        f(a);
                        f(p.clone());
                    };
                    emit(&base);
                    for &(k, own) in &self.extra_kinds {
                        for s in 0..64u8 {
                            if base.sq[s as usize].is_some() {
                                continue;
                            }
                            let mut q = base.clone();
                            put(&mut q, s, k, if own { c } else { them });
                            emit(&q);
                        }
                    }
                }
            }
        }
    }
}

/// En-passant exposure universe (seven men): the mover's king on the pawns' rank, an enemy rook /
/// queen on that rank (so that the capture may expose the king along the rank), an enemy bishop /
/// queen on one of the king's diagonals and no or one blocker between them — every combination of
/// "exposed along the rank" x "diagonal open / closed".
pub struct EpExposure;
impl RawUniverse for EpExposure {
    fn name(&self) -> String {
        "S-EPX".into()
    }
    fn bounds(&self) -> Value {
        json!({"mover_colours": 2, "ep_files": 8, "capturer": "left or right", "own_king": "every free square of the pawns' rank", "rank_slider": "enemy R or Q on every free square of that rank",
               "diagonal_slider": "enemy B or Q on every square of the king's diagonals", "blocker": "none, or own P / own N / enemy N on every square between king and diagonal slider", "enemy_king": "first free far square"})
    }
    fn parts(&self) -> usize {
        2 * 8
    }
    fn part(&self, i: usize, f: &mut dyn FnMut(Pos)) {
        let c = Col::ALL[i / 8];
        let file = (i % 8) as u8;
        let them = c.other();
        let rank = c.rel_rank(4);
        let pawn = sq(file, rank);
        let target = sq(file, c.rel_rank(5));
        // every state also with a running half-move clock (accepted by parser, builder and setter)
        let f = &mut |p: Pos| {
            let mut a = p.clone();
            a.hm = 7;
            f(p);
            f(a);
        };
        for df in [-1i32, 1] {
            let cap = match refmodel::step(pawn, df, 0) {
                Some(s) => s,
                None => continue,
            };
            let mut base = Pos::empty();
            base.stm = c;
            base.ep = Some(target);
            base.fm = 2;
            put(&mut base, pawn, Kind::P, them);
            put(&mut base, cap, Kind::P, c);
            for kf in 0..8u8 {
                let ks = sq(kf, rank);
                if base.sq[ks as usize].is_some() {
                    continue;
                }
                for rf in 0..8u8 {
                    let rs = sq(rf, rank);
                    if rs == ks || base.sq[rs as usize].is_some() {
                        continue;
                    }
                    for rk in [Kind::R, Kind::Q] {
                        let mut p1 = base.clone();
                        put(&mut p1, ks, Kind::K, c);
                        put(&mut p1, rs, rk, them);
                        // enemy king: first far square that is free and not adjacent to ours
                        let ek = [sq(0, them.back_rank()), sq(7, them.back_rank()), sq(0, c.back_rank()), sq(7, c.back_rank())].into_iter().find(|&e| {
                            p1.sq[e as usize].is_none() && ((refmodel::file_of(e) as i32 - kf as i32).abs() > 1 || (refmodel::rank_of(e) as i32 - rank as i32).abs() > 1)
                        });
                        let ek = match ek {
                            Some(e) => e,
                            None => continue,
                        };
                        put(&mut p1, ek, Kind::K, them);
                        f(p1.clone());
                        for dir in refmodel::DIAG_D {
                            let mut squares = Vec::new();
                            let mut cur = ks;
                            while let Some(n) = refmodel::step(cur, dir.0, dir.1) {
                                squares.push(n);
                                cur = n;
                            }
                            for (bi, &bs) in squares.iter().enumerate() {
                                if p1.sq[bs as usize].is_some() {
                                    continue;
                                }
                                for bk in [Kind::B, Kind::Q] {
                                    let mut p2 = p1.clone();
                                    put(&mut p2, bs, bk, them);
                                    f(p2.clone());
                                    for &xs in &squares[..bi] {
                                        if p2.sq[xs as usize].is_some() {
                                            continue;
                                        }
                                        for (xk, own) in [(Kind::P, true), (Kind::N, true), (Kind::N, false)] {
                                            if xk == Kind::P && (refmodel::rank_of(xs) == 0 || refmodel::rank_of(xs) == 7) {
                                                continue;
                                            }
                                            let mut p3 = p2.clone();
                                            put(&mut p3, xs, xk, if own { c } else { them });
                                            f(p3);
                                        }
                                    }
                                }
                            }
                        }
                    }
                }
            }
        }
    }
}

/// En-passant-while-in-check universe: the double push has just been played and the mover is in
/// check — from the pushed pawn itself, or from an enemy slider uncovered through the pawn's origin
/// square (every line through that square, king at every distance on one side, slider at every
/// distance on the other) — with one, the other or both capturing pawns present, and a SECOND enemy
/// slider on every free square (pinning a capturer, standing behind the checking pawn, ...).
pub struct EpCheck {
    pub second: Vec<Kind>,
    pub files: Vec<u8>,
}
impl RawUniverse for EpCheck {
    fn name(&self) -> String {
        format!("S-EPCHECK(second={},files={})", self.second.len(), self.files.len())
    }
    fn bounds(&self) -> Value {
        json!({"mover_colours": 2, "ep_files": self.files, "capturers": "left/right/both", "mover_king": "the two squares attacked by the pushed pawn; every square of every line through the pawn's origin square",
               "first_slider": "none (pawn check) or enemy R|B (by line type) or Q at every distance beyond the origin square", "second_slider": format!("none or one enemy {:?} on every free square", self.second), "enemy_king": "first free far square"})
    }
    fn parts(&self) -> usize {
        2 * self.files.len()
    }
    fn part(&self, i: usize, f: &mut dyn FnMut(Pos)) {
        let c = Col::ALL[i % 2];
        let file = self.files[i / 2];
        let them = c.other();
        let pawn = sq(file, c.rel_rank(4));
        let target = sq(file, c.rel_rank(5));
        let origin = sq(file, c.rel_rank(6));
        // every state also with a running half-move clock (accepted by parser, builder and setter)
        let f = &mut |p: Pos| {
            let mut a = p.clone();
            a.hm = 7;
            f(p);
            f(a);
        };
        for caps in 1..4u8 {
            let mut base = Pos::empty();
            base.stm = c;
            base.ep = Some(target);
            base.fm = 2;
            put(&mut base, pawn, Kind::P, them);
            let mut clash = false;
            for (bit, df) in [(1u8, -1i32), (2u8, 1i32)] {
                if caps & bit != 0 {
                    match refmodel::step(pawn, df, 0) {
                        Some(s) => put(&mut base, s, Kind::P, c),
                        None => clash = true,
                    }
                }
            }
            if clash {
                continue;
            }
            // (king square, first slider)
            let mut setups: Vec<(Sq, Option<(Sq, Kind)>)> = Vec::new();
            for df in [-1i32, 1] {
                if let Some(k) = refmodel::step(pawn, df, -c.dir()) {
                    setups.push((k, None));
                }
            }
            for d in DIRS8 {
                let ortho = d.0 == 0 || d.1 == 0;
                let mut cur = origin;
                while let Some(k) = refmodel::step(cur, d.0, d.1) {
                    if base.sq[k as usize].is_some() {
                        break;
                    }
                    cur = k;
                    if k == target {
                        continue;
                    }
                    let mut sc = origin;
                    while let Some(s1) = refmodel::step(sc, -d.0, -d.1) {
                        if base.sq[s1 as usize].is_some() {
                            break;
                        }
                        sc = s1;
                        if s1 == target {
                            continue;
                        }
                        for k1 in [if ortho { Kind::R } else { Kind::B }, Kind::Q] {
                            setups.push((k, Some((s1, k1))));
                        }
                    }
                }
            }
            for (k, first) in setups {
                if base.sq[k as usize].is_some() {
                    continue;
                }
                let mut p1 = base.clone();
                put(&mut p1, k, Kind::K, c);
                if let Some((s1, k1)) = first {
                    put(&mut p1, s1, k1, them);
                }
                let ek = [sq(0, them.back_rank()), sq(7, them.back_rank()), sq(0, c.back_rank()), sq(7, c.back_rank()), sq(1, them.back_rank()), sq(6, them.back_rank())].into_iter().find(|&e| {
                    p1.sq[e as usize].is_none()
                        && ((refmodel::file_of(e) as i32 - refmodel::file_of(k) as i32).abs() > 1 || (refmodel::rank_of(e) as i32 - refmodel::rank_of(k) as i32).abs() > 1)
                        && first.map_or(true, |(s1, _)| refmodel::geom::between(k, s1) & refmodel::geom::bit(e) == 0)
                });
                let ek = match ek {
                    Some(e) => e,
                    None => continue,
                };
                put(&mut p1, ek, Kind::K, them);
                f(p1.clone());
                for &k2 in &self.second {
                    for s2 in 0..64u8 {
                        if p1.sq[s2 as usize].is_some() || s2 == target || s2 == origin {
                            continue;
                        }
                        let mut p2 = p1.clone();
                        put(&mut p2, s2, k2, them);
                        f(p2);
                    }
                }
            }
        }
    }
}

/// Cage closure of another universe: every sound candidate of the base universe is turned into a
/// position whose king has (almost) no flight square, deterministically. For each empty neighbour
/// square the king can legally step to, the first candidate of a fixed menu is added that takes the
/// flight away without changing the checkers or the pinned set and keeps the position sound:
/// an enemy knight or pawn that attacks the square from outside the king's neighbourhood, or a
/// piece of the mover (pawn / bishop / knight) standing on it. `variants` orders the menu in
/// different ways (enemy first, own first, own on the back rank only). Turns "check + pin"
/// structures into mates, stalemate-like positions and near-mates in which the only pseudo-legal
/// answers belong to pinned pieces.
pub struct Caged {
    pub inner: Box<dyn RawUniverse>,
    pub variants: u8,
    /// cage the king of the side to move (true) or of the side that has just moved (false: the
    /// mover's moves then include mating moves against a king without flight squares)
    pub mover: bool,
}
/// the same placement seen with `c` to move (for asking about c's king steps, checkers and pins)
fn seen_by(p: &Pos, c: Col) -> Pos {
    let mut v = p.clone();
    if v.stm != c {
        v.stm = c;
        v.ep = None;
    }
    v
}
fn cage(p: &Pos, variant: u8, mover: bool) -> Option<Pos> {
    if p.sound().is_err() {
        return None;
    }
    let c = if mover { p.stm } else { p.stm.other() };
    let them = c.other();
    let k = p.king_sq(c)?;
    let checkers = seen_by(p, c).checkers();
    let pinned = seen_by(p, c).pinned();
    let mut q = p.clone();
    let mut added = 0;
    for d in DIRS8 {
        let s = match refmodel::step(k, d.0, d.1) {
            Some(s) => s,
            None => continue,
        };
        if q.sq[s as usize].is_some() || !seen_by(&q, c).legal_moves().contains(&Mv::new(k, s)) {
            continue;
        }
        // candidate additions: (square, kind, colour)
        let mut enemy: Vec<(Sq, Kind, Col)> = Vec::new();
        for kd in refmodel::KNIGHT_D {
            if let Some(n) = refmodel::step(s, kd.0, kd.1) {
                enemy.push((n, Kind::N, them));
            }
        }
        for df in [-1i32, 1] {
            // an enemy pawn attacks towards the mover's side
            if let Some(n) = refmodel::step(s, df, c.dir()) {
                if refmodel::rank_of(n) != 0 && refmodel::rank_of(n) != 7 {
                    enemy.push((n, Kind::P, them));
                }
            }
        }
        let mut own: Vec<(Sq, Kind, Col)> = Vec::new();
        if refmodel::rank_of(s) != 0 && refmodel::rank_of(s) != 7 {
            own.push((s, Kind::P, c));
        }
        own.push((s, Kind::B, c));
        own.push((s, Kind::N, c));
        let own_first = match variant % 3 {
            0 => false,
            1 => true,
            _ => refmodel::rank_of(s) == c.back_rank(),
        };
        let menu: Vec<(Sq, Kind, Col)> = if own_first { own.into_iter().chain(enemy).collect() } else { enemy.into_iter().chain(own).collect() };
        for (n, kind, col) in menu {
            if q.sq[n as usize].is_some() || Some(n) == q.ep {
                continue;
            }
            let near = (refmodel::file_of(n) as i32 - refmodel::file_of(k) as i32).abs() <= 1 && (refmodel::rank_of(n) as i32 - refmodel::rank_of(k) as i32).abs() <= 1;
            if col == them && near {
                continue;
            }
            let mut q2 = q.clone();
            q2.sq[n as usize] = Some((kind, col));
            let v2 = seen_by(&q2, c);
            if q2.sound().is_ok() && v2.checkers() == checkers && v2.pinned() == pinned && !v2.legal_moves().contains(&Mv::new(k, s)) {
                q = q2;
                added += 1;
                break;
            }
        }
    }
    if added > 0 {
        Some(q)
    } else {
        None
    }
}
impl RawUniverse for Caged {
    fn name(&self) -> String {
        format!("S-CAGED{}[{}]x{}", if self.mover { "" } else { "(other king)" }, self.inner.name(), self.variants)
    }
    fn bounds(&self) -> Value {
        json!({"base": self.inner.bounds(), "cage_variants": self.variants, "caged_king": if self.mover { "side to move" } else { "side not to move" },
               "cage": "for each empty legal king step: first of {enemy N on the 8 knight squares, enemy P on the 2 attacking squares (never next to the king), own P / B / N on the square} that removes the step, keeps checkers and pinned set and soundness; menu order by variant"})
    }
    fn parts(&self) -> usize {
        self.inner.parts()
    }
    fn first_moves(&self, p: &Pos) -> Option<Vec<Mv>> {
        self.inner.first_moves(p)
    }
    fn part(&self, i: usize, f: &mut dyn FnMut(Pos)) {
        let variants = self.variants;
        let mover = self.mover;
        self.inner.part(i, &mut |p: Pos| {
            for v in 0..variants {
                if let Some(q) = cage(&p, v, mover) {
                    f(q);
                }
            }
        });
    }
}

/// Castling-right closure of another universe: every candidate whose mover's king stands on its back
/// rank is emitted again with a rook of the mover on each empty back-rank square reachable from the
/// king along the rank, carrying the corresponding castling right (Chess960 geometries included:
/// rook directly next to the king, king already on its destination file, ...).
pub struct AddCastle {
    pub inner: Box<dyn RawUniverse>,
}
impl RawUniverse for AddCastle {
    fn name(&self) -> String {
        format!("S-ADDCASTLE[{}]", self.inner.name())
    }
    fn bounds(&self) -> Value {
        json!({"base": self.inner.bounds(), "added": "one rook of the mover on every empty back-rank square with an empty path to the king, with the matching castling right"})
    }
    fn parts(&self) -> usize {
        self.inner.parts()
    }
    fn part(&self, i: usize, f: &mut dyn FnMut(Pos)) {
        self.inner.part(i, &mut |p: Pos| {
            let c = p.stm;
            let k = match p.king_sq(c) {
                Some(k) => k,
                None => return,
            };
            if refmodel::rank_of(k) != c.back_rank() {
                return;
            }
            for df in [-1i32, 1] {
                let mut cur = k;
                while let Some(n) = refmodel::step(cur, df, 0) {
                    if p.sq[n as usize].is_some() {
                        break;
                    }
                    cur = n;
                    let mut q = p.clone();
                    q.sq[n as usize] = Some((Kind::R, c));
                    q.rights[c as usize][if df > 0 { SHORT } else { LONG }] = Some(refmodel::file_of(n));
                    f(q);
                }
            }
        });
    }
}

/// Castle-and-play universe: every castling geometry (colour x king file b..g x wing x rook file)
/// with one enemy rook or queen on every free square and the enemy king on two squares. The FIRST
/// ply is forced to be a castling move (played by the library); the plies after it are unrestricted.
/// Reaches, within three plies, captures on the squares the castling vacated and filled.
pub struct CastlePlay {
    pub visitors: Vec<Kind>,
}
impl RawUniverse for CastlePlay {
    fn name(&self) -> String {
        format!("S-CASTLEPLAY(visitors={})", self.visitors.len())
    }
    fn bounds(&self) -> Value {
        json!({"mover_colours": 2, "king_files": "b..g", "wings": 2, "rook_files": "every file on that side of the king", "second_rook": "none, or the other wing's rook on its outermost file with its right",
               "enemy_visitor": format!("one of {:?} on every free square", self.visitors), "enemy_king": "2 squares", "first_ply": "castling moves only (forced); then unrestricted"})
    }
    fn parts(&self) -> usize {
        2 * 6
    }
    fn first_moves(&self, p: &Pos) -> Option<Vec<Mv>> {
        Some(p.legal_moves().into_iter().filter(|m| p.is_castle(*m)).collect())
    }
    fn part(&self, i: usize, f: &mut dyn FnMut(Pos)) {
        let c = Col::ALL[i % 2];
        let kf = (i / 2) as u8 + 1;
        let them = c.other();
        let r = c.back_rank();
        let k = sq(kf, r);
        for rf in 0..8u8 {
            if rf == kf {
                continue;
            }
            let wing = if rf > kf { SHORT } else { LONG };
            for second in [false, true] {
                let mut base = Pos::empty();
                base.stm = c;
                put(&mut base, k, Kind::K, c);
                put(&mut base, sq(rf, r), Kind::R, c);
                base.rights[c as usize][wing] = Some(rf);
                if second {
                    let of = if wing == SHORT { 0 } else { 7 };
                    if of == kf || of == rf {
                        continue;
                    }
                    put(&mut base, sq(of, r), Kind::R, c);
                    base.rights[c as usize][1 - wing] = Some(of);
                }
                for ek in [sq(1, them.back_rank()), sq(6, c.rel_rank(5))] {
                    let mut p1 = base.clone();
                    put(&mut p1, ek, Kind::K, them);
                    f(p1.clone());
                    for &vk in &self.visitors {
                        for s in 0..64u8 {
                            if p1.sq[s as usize].is_some() {
                                continue;
                            }
                            let mut p2 = p1.clone();
                            put(&mut p2, s, vk, them);
                            f(p2);
                        }
                    }
                }
            }
        }
    }
}

/// Ray-filling universe: the mover's king on a few squares; on ONE of the eight rays from the king,
/// every way of placing up to `max` pieces from a menu (own N B R P, enemy N B R Q) on the squares of
/// that ray — checks, pins, batteries, shadowed sliders, a checker with the mover's own piece and a
/// second slider behind it, and so on, in every order and at every distance.
pub struct RayFill {
    pub kings: Vec<Sq>,
    pub max: usize,
}
const RAY_MENU: [(Kind, bool); 8] = [(Kind::N, true), (Kind::B, true), (Kind::R, true), (Kind::P, true), (Kind::N, false), (Kind::B, false), (Kind::R, false), (Kind::Q, false)];
impl RayFill {
    fn rec(p: &Pos, ray: &[Sq], from: usize, left: usize, c: Col, f: &mut dyn FnMut(Pos)) {
        f(p.clone());
        if left == 0 {
            return;
        }
        for i in from..ray.len() {
            let s = ray[i];
            if p.sq[s as usize].is_some() {
                continue;
            }
            for (k, own) in RAY_MENU {
                if k == Kind::P && (refmodel::rank_of(s) == 0 || refmodel::rank_of(s) == 7) {
                    continue;
                }
                let mut q = p.clone();
                put(&mut q, s, k, if own { c } else { c.other() });
                Self::rec(&q, ray, i + 1, left - 1, c, f);
            }
        }
    }
}
impl RawUniverse for RayFill {
    fn name(&self) -> String {
        format!("S-RAY(kings={},pieces<={})", self.kings.len(), self.max)
    }
    fn bounds(&self) -> Value {
        json!({"mover_king_squares": self.kings, "mover_colours": 2, "rays": 8, "pieces_on_the_ray": format!("0..{} from own N B R P / enemy N B R Q, every subset of squares, every assignment", self.max), "enemy_king": "first far square off the ray"})
    }
    fn parts(&self) -> usize {
        self.kings.len() * 2 * 8
    }
    fn part(&self, i: usize, f: &mut dyn FnMut(Pos)) {
        let c = Col::ALL[i % 2];
        let d = DIRS8[(i / 2) % 8];
        let k = self.kings[i / 16];
        let mut ray = Vec::new();
        let mut cur = k;
        while let Some(n) = refmodel::step(cur, d.0, d.1) {
            ray.push(n);
            cur = n;
        }
        if ray.is_empty() {
            return;
        }
        let ek = [63u8, 56, 7, 0, 62, 57, 6, 1].into_iter().find(|&e| {
            !ray.contains(&e) && ((refmodel::file_of(e) as i32 - refmodel::file_of(k) as i32).abs() > 1 || (refmodel::rank_of(e) as i32 - refmodel::rank_of(k) as i32).abs() > 1)
        });
        let ek = match ek {
            Some(e) => e,
            None => return,
        };
        let mut base = Pos::empty();
        base.stm = c;
        put(&mut base, k, Kind::K, c);
        put(&mut base, ek, Kind::K, c.other());
        Self::rec(&base, &ray, 0, self.max, c, f);
    }
}

/// Long-record universe: the two 32-piece placements in which every empty square is isolated (the
/// longest possible placement field, 71 characters) and everything reached from them by removing
/// non-king pieces one after another in three fixed orders (ascending squares, descending squares,
/// every other square first) — records of every length from 71 characters downwards, both sides to
/// move, with and without castling rights.
pub struct LongFen;
impl RawUniverse for LongFen {
    fn name(&self) -> String {
        "S-LONGFEN".into()
    }
    fn bounds(&self) -> Value {
        json!({"bases": 2, "removal_orders": 3, "removals": "0..30 non-king pieces", "sides_to_move": 2, "rights": "all four / none"})
    }
    fn parts(&self) -> usize {
        2 * 3
    }
    fn part(&self, i: usize, f: &mut dyn FnMut(Pos)) {
        let (placement, _) = CLOCK_BASES[4 + i % 2];
        let order: Vec<Sq> = match i / 2 {
            0 => (0..64).collect(),
            1 => (0..64).rev().collect(),
            _ => (0..64).step_by(2).chain((1..64).step_by(2)).collect(),
        };
        let sqs = match refmodel::text::decode_placement(placement) {
            Some(x) => x,
            None => return,
        };
        let mut p = Pos::empty();
        p.sq = sqs;
        let mut removed = 0;
        let mut idx = 0;
        loop {
            for stm in Col::ALL {
                let mut q = p.clone();
                q.stm = stm;
                f(q.clone());
                // rights wherever king and rook still stand at home (king e-file or whatever the base has)
                for c in Col::ALL {
                    if let Some(k) = q.king_sq(c) {
                        if refmodel::rank_of(k) == c.back_rank() {
                            for file in 0..8u8 {
                                if q.sq[sq(file, c.back_rank()) as usize] == Some((Kind::R, c)) {
                                    let w = if file > refmodel::file_of(k) { SHORT } else { LONG };
                                    if q.rights[c as usize][w].is_none() {
                                        q.rights[c as usize][w] = Some(file);
                                    }
                                }
                            }
                        }
                    }
                }
                f(q);
            }
            if removed >= 30 {
                break;
            }
            // next removal
            let mut done = false;
            while idx < order.len() {
                let s = order[idx];
                idx += 1;
                if let Some((k, _)) = p.sq[s as usize] {
                    if k != Kind::K {
                        p.sq[s as usize] = None;
                        removed += 1;
                        done = true;
                        break;
                    }
                }
            }
            if !done {
                break;
            }
        }
    }
}

/// En-passant discovery universe: the double push has been played; the mover has a capturing pawn
/// and, behind the capturer's square and/or behind the pushed pawn (seen from the ENEMY king, on
/// every square of the board), a slider of its own at every distance — none, one or both. The
/// capture (explored one ply) then uncovers no, one or two checks at once, through the two squares
/// an en-passant capture empties.
pub struct EpDiscover;
impl RawUniverse for EpDiscover {
    fn name(&self) -> String {
        "S-EPDISCOVER".into()
    }
    fn bounds(&self) -> Value {
        json!({"mover_colours": 2, "ep_files": 8, "capturer": "left or right", "enemy_king": "every square",
               "own_sliders": "none or one (R|B by line type, or Q) at every distance behind the capturer's square, and none or one behind the pushed pawn, on the lines from the enemy king through those squares",
               "mover_king": "first free far square"})
    }
    fn parts(&self) -> usize {
        2 * 8
    }
    fn part(&self, i: usize, f: &mut dyn FnMut(Pos)) {
        let c = Col::ALL[i / 8];
        let file = (i % 8) as u8;
        let them = c.other();
        let pawn = sq(file, c.rel_rank(4));
        let target = sq(file, c.rel_rank(5));
        for df in [-1i32, 1] {
            let cap = match refmodel::step(pawn, df, 0) {
                Some(s) => s,
                None => continue,
            };
            for ek in 0..64u8 {
                if ek == pawn || ek == cap || ek == target {
                    continue;
                }
                let mut base = Pos::empty();
                base.stm = c;
                base.ep = Some(target);
                base.fm = 2;
                put(&mut base, pawn, Kind::P, them);
                put(&mut base, cap, Kind::P, c);
                put(&mut base, ek, Kind::K, them);
                // slider options behind a square x as seen from the enemy king
                let behind = |x: Sq| -> Vec<Option<(Sq, Kind)>> {
                    let mut out: Vec<Option<(Sq, Kind)>> = vec![None];
                    let (dfx, drx) = (refmodel::file_of(x) as i32 - refmodel::file_of(ek) as i32, refmodel::rank_of(x) as i32 - refmodel::rank_of(ek) as i32);
                    if !(dfx == 0 || drx == 0 || dfx.abs() == drx.abs()) {
                        return out;
                    }
                    let d = (dfx.signum(), drx.signum());
                    let ortho = d.0 == 0 || d.1 == 0;
                    let mut cur = x;
                    while let Some(n) = refmodel::step(cur, d.0, d.1) {
                        cur = n;
                        if n == pawn || n == cap || n == target {
                            break;
                        }
                        out.push(Some((n, if ortho { Kind::R } else { Kind::B })));
                        out.push(Some((n, Kind::Q)));
                    }
                    out
                };
                let o1 = behind(cap);
                let o2 = behind(pawn);
                for a in &o1 {
                    for b2 in &o2 {
                        if a.is_none() && b2.is_none() {
                            continue;
                        }
                        let mut p = base.clone();
                        if let Some((s1, k1)) = a {
                            put(&mut p, *s1, *k1, c);
                        }
                        if let Some((s2, k2)) = b2 {
                            if p.sq[*s2 as usize].is_some() {
                                continue;
                            }
                            put(&mut p, *s2, *k2, c);
                        }
                        let mk = [0u8, 7, 56, 63, 1, 62, 8, 55].into_iter().find(|&q| {
                            p.sq[q as usize].is_none() && ((refmodel::file_of(q) as i32 - refmodel::file_of(ek) as i32).abs() > 1 || (refmodel::rank_of(q) as i32 - refmodel::rank_of(ek) as i32).abs() > 1) && {
                                let mut t = p.clone();
                                put(&mut t, q, Kind::K, c);
                                !t.in_check(c)
                            }
                        });
                        if let Some(mk) = mk {
                            put(&mut p, mk, Kind::K, c);
                            f(p);
                        }
                    }
                }
            }
        }
    }
}

/// Double-pin universe (no check): the mover's king on a few squares; on each of TWO different rays
/// from the king a piece of the mover (Q R B N, or P where a pawn may stand) at every distance,
/// pinned by an enemy R|B (by line type) or Q at every distance behind it — every pair of rays,
/// every pair of kinds.
pub struct TwoPins {
    pub kings: Vec<Sq>,
    pub kinds: Vec<Kind>,
}
impl RawUniverse for TwoPins {
    fn name(&self) -> String {
        format!("S-2PINS(kings={},kinds={})", self.kings.len(), self.kinds.len())
    }
    fn bounds(&self) -> Value {
        json!({"mover_king_squares": self.kings, "mover_colours": 2, "ray_pairs": 28, "pinned": format!("{:?} of the mover at every distance, on both rays", self.kinds), "pinner": "enemy R|B (by line type) or Q at every distance behind", "enemy_king": "first free far square off both rays"})
    }
    fn parts(&self) -> usize {
        self.kings.len() * 2 * 28
    }
    fn part(&self, i: usize, f: &mut dyn FnMut(Pos)) {
        let c = Col::ALL[i % 2];
        let pair = (i / 2) % 28;
        let k = self.kings[i / 56];
        let them = c.other();
        // the pair-th pair of directions
        let mut n = 0;
        let mut dirs = (DIRS8[0], DIRS8[1]);
        'outer: for a in 0..8 {
            for b2 in a + 1..8 {
                if n == pair {
                    dirs = (DIRS8[a], DIRS8[b2]);
                    break 'outer;
                }
                n += 1;
            }
        }
        let ray = |d: (i32, i32)| -> Vec<Sq> {
            let mut v = Vec::new();
            let mut cur = k;
            while let Some(s) = refmodel::step(cur, d.0, d.1) {
                v.push(s);
                cur = s;
            }
            v
        };
        let (r1, r2) = (ray(dirs.0), ray(dirs.1));
        // (pinned square, pinned kind, pinner square, pinner kind) on one ray
        let options = |r: &Vec<Sq>, d: (i32, i32)| -> Vec<(Sq, Kind, Sq, Kind)> {
            let ortho = d.0 == 0 || d.1 == 0;
            let mut out = Vec::new();
            for (pi, &ps) in r.iter().enumerate() {
                for &ss in &r[pi + 1..] {
                    for sk in [if ortho { Kind::R } else { Kind::B }, Kind::Q] {
                        for &pk in &self.kinds {
                            if pk == Kind::P && (refmodel::rank_of(ps) == 0 || refmodel::rank_of(ps) == 7) {
                                continue;
                            }
                            out.push((ps, pk, ss, sk));
                        }
                    }
                }
            }
            out
        };
        let (o1, o2) = (options(&r1, dirs.0), options(&r2, dirs.1));
        let ek = [63u8, 56, 7, 0, 62, 57, 6, 1, 55, 8].into_iter().find(|&e| {
            !r1.contains(&e) && !r2.contains(&e) && ((refmodel::file_of(e) as i32 - refmodel::file_of(k) as i32).abs() > 1 || (refmodel::rank_of(e) as i32 - refmodel::rank_of(k) as i32).abs() > 1)
        });
        let ek = match ek {
            Some(e) => e,
            None => return,
        };
        for a in &o1 {
            for b2 in &o2 {
                let mut p = Pos::empty();
                p.stm = c;
                put(&mut p, k, Kind::K, c);
                put(&mut p, ek, Kind::K, them);
                put(&mut p, a.0, a.1, c);
                put(&mut p, a.2, a.3, them);
                put(&mut p, b2.0, b2.1, c);
                put(&mut p, b2.2, b2.3, them);
                f(p);
            }
        }
    }
}

/// Battery universe: the side NOT to move has its king on a few squares; the mover owns FIVE
/// rook-movers (or five bishop-movers) standing on that king's lines — every 5-subset of the
/// squares of those lines at distance >= 2 — each line screened by one piece next to the king (an
/// enemy knight, which is then pinned, or a knight of the mover, which may discover a check).
/// Explored one ply: every move of the mover makes the library recompute checkers and pins
/// incrementally with many aligned, partly shadowed sliders.
pub struct Battery {
    pub enemy_kings: Vec<Sq>,
    pub stride: usize,
}
impl RawUniverse for Battery {
    fn name(&self) -> String {
        format!("S-BATTERY(kings={},stride={})", self.enemy_kings.len(), self.stride)
    }
    fn bounds(&self) -> Value {
        json!({"enemy_king_squares": self.enemy_kings, "mover_colours": 2, "line_types": "orthogonal (R/Q) and diagonal (B/Q)", "sliders": "every 5-subset of the line squares at distance >= 2 (every stride-th subset); the nearest slider of each line is R|B, those behind it Q",
               "screens": "all enemy knights / all own knights / alternating, on the square next to the king of every line that carries a slider", "mover_king": "first free far square not attacked"})
    }
    fn parts(&self) -> usize {
        self.enemy_kings.len() * 2 * 2
    }
    fn part(&self, i: usize, f: &mut dyn FnMut(Pos)) {
        let c = Col::ALL[i % 2];
        let ortho = (i / 2) % 2 == 0;
        let ek = self.enemy_kings[i / 4];
        let them = c.other();
        // lines: (screen square, squares behind it in order of distance)
        let mut lines: Vec<(Sq, Vec<Sq>)> = Vec::new();
        for d in DIRS8 {
            if (d.0 == 0 || d.1 == 0) != ortho {
                continue;
            }
            if let Some(s0) = refmodel::step(ek, d.0, d.1) {
                let mut v = Vec::new();
                let mut cur = s0;
                while let Some(n) = refmodel::step(cur, d.0, d.1) {
                    v.push(n);
                    cur = n;
                }
                if !v.is_empty() {
                    lines.push((s0, v));
                }
            }
        }
        let all: Vec<(usize, usize)> = lines.iter().enumerate().flat_map(|(li, (_, v))| (0..v.len()).map(move |j| (li, j))).collect();
        let n = all.len();
        if n < 5 {
            return;
        }
        let mut idx = [0usize, 1, 2, 3, 4];
        let mut count = 0usize;
        loop {
            if count % self.stride == 0 {
                for screens in 0..3u8 {
                    let mut p = Pos::empty();
                    p.stm = c;
                    put(&mut p, ek, Kind::K, them);
                    let mut used = vec![usize::MAX; lines.len()];
                    for &ix in &idx {
                        let (li, j) = all[ix];
                        if j < used[li] {
                            used[li] = j;
                        }
                    }
                    for &ix in &idx {
                        let (li, j) = all[ix];
                        let kind = if j == used[li] { if ortho { Kind::R } else { Kind::B } } else { Kind::Q };
                        put(&mut p, lines[li].1[j], kind, c);
                    }
                    for (li, (s0, _)) in lines.iter().enumerate() {
                        if used[li] != usize::MAX {
                            let own = match screens {
                                0 => false,
                                1 => true,
                                _ => li % 2 == 0,
                            };
                            put(&mut p, *s0, Kind::N, if own { c } else { them });
                        }
                    }
                    let mk = (0..64u8).rev().find(|&s| {
                        p.sq[s as usize].is_none() && (refmodel::file_of(s) as i32 - refmodel::file_of(ek) as i32).abs().max((refmodel::rank_of(s) as i32 - refmodel::rank_of(ek) as i32).abs()) > 2 && {
                            let mut q = p.clone();
                            put(&mut q, s, Kind::K, c);
                            !q.in_check(c)
                        }
                    });
                    if let Some(mk) = mk {
                        put(&mut p, mk, Kind::K, c);
                        f(p);
                    }
                }
            }
            count += 1;
            // next 5-combination
            let mut t = 4isize;
            while t >= 0 && idx[t as usize] == n - 5 + t as usize {
                t -= 1;
            }
            if t < 0 {
                break;
            }
            idx[t as usize] += 1;
            for u in (t as usize + 1)..5 {
                idx[u] = idx[u - 1] + 1;
            }
        }
    }
}

/// Multi-check universe: mover's king on 6 squares, enemy king far away, every multiset of `n`
/// enemy attackers from {N, B, R, Q, P} on all squares.
pub struct Checks {
    pub n: usize,
}
const CHECK_KINGS: [Sq; 6] = [0, 4, 27, 36, 63, 31];
impl RawUniverse for Checks {
    fn name(&self) -> String {
        format!("S-CHECKS(n={})", self.n)
    }
    fn bounds(&self) -> Value {
        json!({"mover_king_squares": CHECK_KINGS.len(), "mover_colours": 2, "enemy_attackers": self.n, "attacker_kinds": "N B R Q P, every multiset, every placement"})
    }
    fn parts(&self) -> usize {
        CHECK_KINGS.len() * 2
    }
    fn part(&self, i: usize, f: &mut dyn FnMut(Pos)) {
        let c = Col::ALL[i % 2];
        let k = CHECK_KINGS[i / 2];
        let them = c.other();
        // enemy king: a far corner not adjacent to k
        let ek = [63u8, 56, 7, 0].into_iter().find(|&e| {
            (refmodel::file_of(e) as i32 - refmodel::file_of(k) as i32).abs() > 1 || (refmodel::rank_of(e) as i32 - refmodel::rank_of(k) as i32).abs() > 1
        });
        let ek = ek.unwrap();
        let mut base = Pos::empty();
        base.stm = c;
        put(&mut base, k, Kind::K, c);
        put(&mut base, ek, Kind::K, them);
        fn rec(p: &Pos, them: Col, min_code: usize, left: usize, f: &mut dyn FnMut(Pos)) {
            if left == 0 {
                f(p.clone());
                return;
            }
            // code = kind_index * 64 + square, strictly increasing => each multiset/placement once
            for code in min_code..5 * 64 {
                let kind = NONKING[code / 64];
                let s = (code % 64) as Sq;
                if p.sq[s as usize].is_some() {
                    continue;
                }
                let mut q = p.clone();
                q.sq[s as usize] = Some((kind, them));
                rec(&q, them, code + 1, left - 1, f);
            }
        }
        rec(&base, them, 0, self.n, f);
    }
}

/// Double-check universe: the mover's king on a few squares, every pair of enemy attackers from
/// {N, B, R, Q, P} on all squares that really gives a DOUBLE check, plus none or one further piece of
/// the mover (which might seem able to capture / interpose) on every empty square.
pub struct DoubleCheck {
    pub kings: Vec<Sq>,
    pub own_kinds: Vec<Kind>,
}
impl RawUniverse for DoubleCheck {
    fn name(&self) -> String {
        format!("S-DCHECK(kings={},own={})", self.kings.len(), self.own_kinds.len())
    }
    fn bounds(&self) -> Value {
        json!({"mover_king_squares": self.kings, "mover_colours": 2, "checkers": "every pair of enemy N B R Q P on all squares giving double check",
               "own_extra": format!("none or one of {:?} on every empty square", self.own_kinds)})
    }
    fn parts(&self) -> usize {
        self.kings.len() * 2
    }
    fn part(&self, i: usize, f: &mut dyn FnMut(Pos)) {
        let c = Col::ALL[i % 2];
        let k = self.kings[i / 2];
        let them = c.other();
        let ek = [63u8, 56, 7, 0]
            .into_iter()
            .find(|&e| (refmodel::file_of(e) as i32 - refmodel::file_of(k) as i32).abs() > 1 || (refmodel::rank_of(e) as i32 - refmodel::rank_of(k) as i32).abs() > 1)
            .unwrap();
        let mut base = Pos::empty();
        base.stm = c;
        put(&mut base, k, Kind::K, c);
        put(&mut base, ek, Kind::K, them);
        for code1 in 0..5 * 64usize {
            let (k1, s1) = (NONKING[code1 / 64], (code1 % 64) as Sq);
            if base.sq[s1 as usize].is_some() {
                continue;
            }
            for code2 in code1 + 1..5 * 64usize {
                let (k2, s2) = (NONKING[code2 / 64], (code2 % 64) as Sq);
                if s2 == s1 || base.sq[s2 as usize].is_some() {
                    continue;
                }
                let mut p = base.clone();
                put(&mut p, s1, k1, them);
                put(&mut p, s2, k2, them);
                if p.checkers().len() < 2 {
                    continue;
                }
                f(p.clone());
                for &ok in &self.own_kinds {
                    for s in 0..64u8 {
                        if p.sq[s as usize].is_none() {
                            let mut q = p.clone();
                            put(&mut q, s, ok, c);
                            f(q);
                        }
                    }
                }
            }
        }
    }
}

/// Two-lines universe for the incremental checker/pin bookkeeping: the enemy king on a few squares;
/// on each of two different lines through it a slider of the mover (R or B by line type, or Q) at
/// every distance >= 2, with nothing or exactly one blocker (own N / own B / own P / enemy N / enemy
/// P) on every square in between. The mover is to move; its moves (explored one ply deep) turn
/// blockers into discovered checks, double checks and pins in every combination.
pub struct TwoLines {
    pub enemy_kings: Vec<Sq>,
}
const DIRS8: [(i32, i32); 8] = [(0, 1), (1, 1), (1, 0), (1, -1), (0, -1), (-1, -1), (-1, 0), (-1, 1)];
impl TwoLines {
    fn line_configs(&self, p: &Pos, ek: Sq, dir: (i32, i32), c: Col) -> Vec<Vec<(Sq, Kind, Col)>> {
        let mut squares = Vec::new();
        let mut cur = ek;
        while let Some(n) = refmodel::step(cur, dir.0, dir.1) {
            squares.push(n);
            cur = n;
        }
        let ortho = dir.0 == 0 || dir.1 == 0;
        let slider_kinds = if ortho { [Kind::R, Kind::Q] } else { [Kind::B, Kind::Q] };
        let blockers: [(Kind, bool); 5] = [(Kind::N, true), (Kind::B, true), (Kind::P, true), (Kind::N, false), (Kind::P, false)];
        let mut out = Vec::new();
        for (di, &ssq) in squares.iter().enumerate().skip(1) {
            if p.sq[ssq as usize].is_some() {
                continue;
            }
            for sk in slider_kinds {
                out.push(vec![(ssq, sk, c)]);
                for &bsq in &squares[..di] {
                    if p.sq[bsq as usize].is_some() {
                        continue;
                    }
                    for (bk, own) in blockers {
                        if bk == Kind::P && (refmodel::rank_of(bsq) == 0 || refmodel::rank_of(bsq) == 7) {
                            continue;
                        }
                        // an own bishop on a diagonal line would itself be a checker: keep it, the
                        // builder simply rejects positions where the side not to move is in check
                        out.push(vec![(ssq, sk, c), (bsq, bk, if own { c } else { c.other() })]);
                    }
                }
            }
        }
        out
    }
}
impl RawUniverse for TwoLines {
    fn name(&self) -> String {
        format!("S-2LINES(kings={})", self.enemy_kings.len())
    }
    fn bounds(&self) -> Value {
        json!({"enemy_king_squares": self.enemy_kings, "mover_colours": 2, "line_pairs": 28, "per_line": "slider R|B (by line type) or Q at every distance >= 2, with no blocker or one blocker (own N, own B, own P, enemy N, enemy P) on every square between"})
    }
    fn parts(&self) -> usize {
        self.enemy_kings.len() * 2 * 8
    }
    fn part(&self, i: usize, f: &mut dyn FnMut(Pos)) {
        let d1 = i % 8;
        let c = Col::ALL[(i / 8) % 2];
        let ek = self.enemy_kings[i / 16];
        let mut base = Pos::empty();
        base.stm = c;
        put(&mut base, ek, Kind::K, c.other());
        for d2 in d1 + 1..8 {
            for l1 in self.line_configs(&base, ek, DIRS8[d1], c) {
                let mut p1 = base.clone();
                for &(s, k, col) in &l1 {
                    put(&mut p1, s, k, col);
                }
                for l2 in self.line_configs(&p1, ek, DIRS8[d2], c) {
                    let mut p2 = p1.clone();
                    for &(s, k, col) in &l2 {
                        put(&mut p2, s, k, col);
                    }
                    // the mover's king: first far square that is free and not adjacent to the enemy king
                    let ok = [0u8, 7, 56, 63, 1, 62].into_iter().find(|&q| {
                        p2.sq[q as usize].is_none() && ((refmodel::file_of(q) as i32 - refmodel::file_of(ek) as i32).abs() > 1 || (refmodel::rank_of(q) as i32 - refmodel::rank_of(ek) as i32).abs() > 1)
                    });
                    if let Some(ok) = ok {
                        put(&mut p2, ok, Kind::K, c);
                        f(p2);
                    }
                }
            }
        }
    }
}

/// Single check + pin universe: the mover's king on a few squares, every single enemy checker, and
/// on every other line through the king one piece of the mover (P N B R Q) pinned by an enemy slider.
pub struct CheckPin {
    pub kings: Vec<Sq>,
}
impl RawUniverse for CheckPin {
    fn name(&self) -> String {
        format!("S-CHECKPIN(kings={})", self.kings.len())
    }
    fn bounds(&self) -> Value {
        json!({"mover_king_squares": self.kings, "mover_colours": 2, "checker": "every enemy N B R Q P on every square that gives check",
               "pin": "on each of the 8 lines: one piece of the mover (P N B R Q) at every distance, pinned by an enemy R|B (by line type) or Q at every distance behind it"})
    }
    fn parts(&self) -> usize {
        self.kings.len() * 2
    }
    fn part(&self, i: usize, f: &mut dyn FnMut(Pos)) {
        let c = Col::ALL[i % 2];
        let k = self.kings[i / 2];
        let them = c.other();
        let ek = [63u8, 56, 7, 0]
            .into_iter()
            .find(|&e| (refmodel::file_of(e) as i32 - refmodel::file_of(k) as i32).abs() > 1 || (refmodel::rank_of(e) as i32 - refmodel::rank_of(k) as i32).abs() > 1)
            .unwrap();
        let mut base = Pos::empty();
        base.stm = c;
        put(&mut base, k, Kind::K, c);
        put(&mut base, ek, Kind::K, them);
        for code in 0..5 * 64usize {
            let (ck, cs) = (NONKING[code / 64], (code % 64) as Sq);
            if base.sq[cs as usize].is_some() {
                continue;
            }
            let mut p = base.clone();
            put(&mut p, cs, ck, them);
            if p.checkers().len() != 1 {
                continue;
            }
            f(p.clone());
            for dir in DIRS8 {
                let mut squares = Vec::new();
                let mut cur = k;
                while let Some(n) = refmodel::step(cur, dir.0, dir.1) {
                    squares.push(n);
                    cur = n;
                }
                let ortho = dir.0 == 0 || dir.1 == 0;
                for (pi, &psq) in squares.iter().enumerate() {
                    if p.sq[psq as usize].is_some() {
                        break;
                    }
                    for &ssq in &squares[pi + 1..] {
                        if p.sq[ssq as usize].is_some() {
                            break;
                        }
                        for sk in [if ortho { Kind::R } else { Kind::B }, Kind::Q] {
                            for ok in NONKING {
                                if ok == Kind::P && (refmodel::rank_of(psq) == 0 || refmodel::rank_of(psq) == 7) {
                                    continue;
                                }
                                let mut q = p.clone();
                                put(&mut q, psq, ok, c);
                                put(&mut q, ssq, sk, them);
                                if q.checkers().len() == 1 {
                                    f(q);
                                }
                            }
                        }
                    }
                }
            }
        }
    }
}

/// Pin universe (no check): the mover's king on a few squares; on each of the 8 lines one piece of
/// the mover — INCLUDING a pawn — at every distance, pinned by an enemy R|B (by line type) or Q at
/// every distance behind it; plus no or one enemy knight on each of the 8 squares around the pinned
/// piece (something it might seem able to capture).
pub struct PinUniverse {
    pub kings: Vec<Sq>,
    /// also put, on the OPPOSITE side of the king on the same line, a second enemy slider looking at
    /// the king through exactly one piece (own N or enemy N) at every distance
    pub far_side: bool,
}
impl RawUniverse for PinUniverse {
    fn name(&self) -> String {
        format!("S-PIN(kings={}{})", self.kings.len(), if self.far_side { ",far side" } else { "" })
    }
    fn bounds(&self) -> Value {
        json!({"mover_king_squares": self.kings, "mover_colours": 2, "pinned": "P N B R Q of the mover at every distance on each of the 8 lines", "pinner": "enemy R|B (by line type) or Q at every distance behind",
               "bait": "none or an enemy knight on each of the 8 squares around the pinned piece"})
    }
    fn parts(&self) -> usize {
        self.kings.len() * 2
    }
    fn part(&self, i: usize, f: &mut dyn FnMut(Pos)) {
        let c = Col::ALL[i % 2];
        let k = self.kings[i / 2];
        let them = c.other();
        for dir in DIRS8 {
            let mut squares = Vec::new();
            let mut cur = k;
            while let Some(n) = refmodel::step(cur, dir.0, dir.1) {
                squares.push(n);
                cur = n;
            }
            let ortho = dir.0 == 0 || dir.1 == 0;
            for (pi, &psq) in squares.iter().enumerate() {
                for &ssq in &squares[pi + 1..] {
                    for sk in [if ortho { Kind::R } else { Kind::B }, Kind::Q] {
                        for ok in NONKING {
                            if ok == Kind::P && (refmodel::rank_of(psq) == 0 || refmodel::rank_of(psq) == 7) {
                                continue;
                            }
                            let mut p = Pos::empty();
                            p.stm = c;
                            put(&mut p, k, Kind::K, c);
                            put(&mut p, psq, ok, c);
                            put(&mut p, ssq, sk, them);
                            let ek = [63u8, 56, 7, 0, 62, 1].into_iter().find(|&e| {
                                p.sq[e as usize].is_none()
                                    && ((refmodel::file_of(e) as i32 - refmodel::file_of(k) as i32).abs() > 1 || (refmodel::rank_of(e) as i32 - refmodel::rank_of(k) as i32).abs() > 1)
                            });
                            let ek = match ek {
                                Some(e) => e,
                                None => continue,
                            };
                            put(&mut p, ek, Kind::K, them);
                            f(p.clone());
                            for d in DIRS8 {
                                if let Some(bs) = refmodel::step(psq, d.0, d.1) {
                                    if p.sq[bs as usize].is_none() {
                                        let mut q = p.clone();
                                        put(&mut q, bs, Kind::N, them);
                                        f(q);
                                    }
                                }
                            }
                            if self.far_side {
                                let mut far = Vec::new();
                                let mut cur = k;
                                while let Some(n) = refmodel::step(cur, -dir.0, -dir.1) {
                                    far.push(n);
                                    cur = n;
                                }
                                for (bi, &bsq) in far.iter().enumerate() {
                                    if p.sq[bsq as usize].is_some() {
                                        break;
                                    }
                                    for &s2 in &far[bi + 1..] {
                                        if p.sq[s2 as usize].is_some() {
                                            break;
                                        }
                                        for (bk, own) in [(Kind::N, true), (Kind::N, false)] {
                                            let mut q = p.clone();
                                            put(&mut q, bsq, bk, if own { c } else { them });
                                            put(&mut q, s2, sk, them);
                                            f(q);
                                        }
                                    }
                                }
                            }
                        }
                    }
                }
            }
        }
    }
}

/// En-passant stalemate universe: the mover's king on the a- or h-file of the pawns' rank, its pawn
/// next to it, the just-pushed enemy pawn beside that, an enemy rook further along the rank (so the
/// capture would expose the king), and the enemy king and one enemy knight on EVERY pair of squares:
/// contains the positions in which the illegal en-passant capture is the only pseudo-legal move.
pub struct EpStale;
impl RawUniverse for EpStale {
    fn name(&self) -> String {
        "S-EPSTALE".into()
    }
    fn bounds(&self) -> Value {
        json!({"mover_colours": 2, "wings": 2, "rank_slider_files": 5, "enemy_king": "every square", "enemy_knight": "every square", "ep_flag": "set"})
    }
    fn parts(&self) -> usize {
        2 * 2 * 5
    }
    fn part(&self, i: usize, f: &mut dyn FnMut(Pos)) {
        let c = Col::ALL[i % 2];
        let left = (i / 2) % 2 == 0;
        let ri = (i / 4) as u8; // 0..5
        let them = c.other();
        let rank = c.rel_rank(4);
        let file = |n: u8| if left { n } else { 7 - n };
        let ks = sq(file(0), rank);
        let own = sq(file(1), rank);
        let pushed = sq(file(2), rank);
        let rook = sq(file(3 + ri), rank);
        let target = sq(file(2), c.rel_rank(5));
        let mut base = Pos::empty();
        base.stm = c;
        base.ep = Some(target);
        base.fm = 3;
        put(&mut base, ks, Kind::K, c);
        put(&mut base, own, Kind::P, c);
        put(&mut base, pushed, Kind::P, them);
        put(&mut base, rook, Kind::R, them);
        for ek in 0..64u8 {
            if base.sq[ek as usize].is_some() {
                continue;
            }
            for n in 0..64u8 {
                if n == ek || base.sq[n as usize].is_some() {
                    continue;
                }
                let mut p = base.clone();
                put(&mut p, ek, Kind::K, them);
                put(&mut p, n, Kind::N, them);
                f(p);
            }
        }
    }
}

/// En-passant file universe (seven men): both flanking pawns of the mover present, the mover's king
/// on the en-passant file, an enemy rook / queen on that file beyond the pushed pawn, and a second
/// enemy slider (B or Q) on every square (it may pin one of the two capturers).
pub struct EpFile;
impl RawUniverse for EpFile {
    fn name(&self) -> String {
        "S-EPFILE".into()
    }
    fn bounds(&self) -> Value {
        json!({"mover_colours": 2, "ep_files": 6, "capturers": "both", "own_king": "every free square of the en-passant file", "file_slider": "enemy R or Q on every free square of that file", "second_slider": "enemy B or Q on every square, or none", "ep_flag": "set"})
    }
    fn parts(&self) -> usize {
        2 * 6
    }
    fn part(&self, i: usize, f: &mut dyn FnMut(Pos)) {
        let c = Col::ALL[i % 2];
        let file = 1 + (i / 2) as u8;
        let them = c.other();
        let rank = c.rel_rank(4);
        let mut base = Pos::empty();
        base.stm = c;
        base.ep = Some(sq(file, c.rel_rank(5)));
        base.fm = 3;
        put(&mut base, sq(file, rank), Kind::P, them);
        put(&mut base, sq(file - 1, rank), Kind::P, c);
        put(&mut base, sq(file + 1, rank), Kind::P, c);
        for kr in 0..8u8 {
            let ks = sq(file, kr);
            if base.sq[ks as usize].is_some() || Some(ks) == base.ep || kr == c.rel_rank(6) {
                continue;
            }
            for rr in 0..8u8 {
                let rs = sq(file, rr);
                if rs == ks || base.sq[rs as usize].is_some() || Some(rs) == base.ep || rr == c.rel_rank(6) {
                    continue;
                }
                for rk in [Kind::R, Kind::Q] {
                    let mut p1 = base.clone();
                    put(&mut p1, ks, Kind::K, c);
                    put(&mut p1, rs, rk, them);
                    let ek = [sq(0, them.back_rank()), sq(7, them.back_rank()), sq(0, c.back_rank()), sq(7, c.back_rank())].into_iter().find(|&e| {
                        p1.sq[e as usize].is_none() && ((refmodel::file_of(e) as i32 - file as i32).abs() > 1 || (refmodel::rank_of(e) as i32 - kr as i32).abs() > 1)
                    });
                    let ek = match ek {
                        Some(e) => e,
                        None => continue,
                    };
                    put(&mut p1, ek, Kind::K, them);
                    f(p1.clone());
                    for bs in 0..64u8 {
                        if p1.sq[bs as usize].is_some() || Some(bs) == base.ep || bs == sq(file, c.rel_rank(6)) {
                            continue;
                        }
                        for bk in [Kind::B, Kind::Q] {
                            let mut p2 = p1.clone();
                            put(&mut p2, bs, bk, them);
                            f(p2);
                        }
                    }
                }
            }
        }
    }
}

/// Promotion universe: a pawn of the mover on its seventh rank (every file), the enemy king on every
/// square of the three ranks in front of it, no or one enemy piece (N B R Q) on each capture square,
/// and no or one slider of the mover (R B Q) on every square (the pawn's departure may uncover it).
/// Explored one ply: every promotion and under-promotion, with and without capture.
pub struct PromoUniverse {
    pub sliders: Vec<Kind>,
}
impl RawUniverse for PromoUniverse {
    fn name(&self) -> String {
        format!("S-PROMO(sliders={})", self.sliders.len())
    }
    fn bounds(&self) -> Value {
        json!({"mover_colours": 2, "pawn_files": 8, "enemy_king": "every square of the three ranks nearest the promotion rank", "capture_targets": "none or enemy N B R Q on either capture square",
               "own_slider": format!("none or one of {:?} on every square", self.sliders), "own_king": "far corner"})
    }
    fn parts(&self) -> usize {
        2 * 8
    }
    fn part(&self, i: usize, f: &mut dyn FnMut(Pos)) {
        let c = Col::ALL[i / 8];
        let file = (i % 8) as u8;
        let them = c.other();
        let pawn = sq(file, c.rel_rank(6));
        for er in 5..8u8 {
            for ef in 0..8u8 {
                let ek = sq(ef, c.rel_rank(er));
                if ek == pawn {
                    continue;
                }
                let mut base = Pos::empty();
                base.stm = c;
                put(&mut base, pawn, Kind::P, c);
                put(&mut base, ek, Kind::K, them);
                let ok = [sq(0, c.back_rank()), sq(7, c.back_rank())][if file < 4 { 1 } else { 0 }];
                put(&mut base, ok, Kind::K, c);
                let mut targets: Vec<Option<(Sq, Kind)>> = vec![None];
                for df in [-1i32, 1] {
                    if let Some(t) = refmodel::step(pawn, df, c.dir()) {
                        if base.sq[t as usize].is_none() {
                            for k in [Kind::N, Kind::B, Kind::R, Kind::Q] {
                                targets.push(Some((t, k)));
                            }
                        }
                    }
                }
                for tg in targets {
                    let mut p1 = base.clone();
                    if let Some((t, k)) = tg {
                        put(&mut p1, t, k, them);
                    }
                    f(p1.clone());
                    for &sk in &self.sliders {
                        for s in 0..64u8 {
                            if p1.sq[s as usize].is_none() {
                                let mut p2 = p1.clone();
                                put(&mut p2, s, sk, c);
                                f(p2);
                            }
                        }
                    }
                }
            }
        }
    }
}

/// Extreme material: one side has its king and n = 1..15 pieces of ONE kind (N, B, R or Q) packed on
/// its first two ranks behind a wall of eight enemy pawns on its third rank (so that nothing gives
/// check), the enemy king far away; both sides to move.
pub struct Material;
impl RawUniverse for Material {
    fn name(&self) -> String {
        "S-MATERIAL".into()
    }
    fn bounds(&self) -> Value {
        json!({"colours": 2, "kinds": "N B R Q", "count": "1..15 pieces of the one kind", "sides": 2})
    }
    fn parts(&self) -> usize {
        2 * 4
    }
    fn part(&self, i: usize, f: &mut dyn FnMut(Pos)) {
        let c = Col::ALL[i / 4];
        let kind = [Kind::N, Kind::B, Kind::R, Kind::Q][i % 4];
        let them = c.other();
        // squares of the first two ranks, the king takes e1 (relative)
        let ks = sq(4, c.rel_rank(0));
        let mut slots: Vec<Sq> = Vec::new();
        for r in [1u8, 0] {
            for fl in 0..8u8 {
                let s = sq(fl, c.rel_rank(r));
                if s != ks {
                    slots.push(s);
                }
            }
        }
        for n in 1..=15usize {
            for stm in Col::ALL {
                let mut p = Pos::empty();
                p.stm = stm;
                put(&mut p, ks, Kind::K, c);
                put(&mut p, sq(4, them.back_rank()), Kind::K, them);
                for fl in 0..8u8 {
                    put(&mut p, sq(fl, c.rel_rank(2)), Kind::P, them);
                }
                for &s in slots.iter().take(n) {
                    put(&mut p, s, kind, c);
                }
                f(p);
            }
        }
    }
}

/// Boxed castling universe: every Chess960 king/rook geometry of one wing with the right set, plus
/// every subset of at most `max_items` items from a menu of pieces around the king (own pawns on the
/// three squares in front, own pieces beside it, enemy pawns two ranks up, enemy rooks controlling
/// the neighbouring files, an enemy bishop/knight nearby). Contains the positions in which castling
/// is the mover's only legal move, or is prevented only by one attacked square.
pub struct CastleBox {
    pub max_items: usize,
}
const BOX_MENU: [(i32, u8, Kind, bool); 16] = [
    (-1, 1, Kind::P, true),
    (0, 1, Kind::P, true),
    (1, 1, Kind::P, true),
    (-1, 0, Kind::B, true),
    (1, 0, Kind::N, true),
    (-1, 2, Kind::P, false),
    (0, 2, Kind::P, false),
    (1, 2, Kind::P, false),
    (-2, 2, Kind::P, false),
    (2, 2, Kind::P, false),
    (-1, 7, Kind::R, false),
    (1, 7, Kind::R, false),
    (-2, 7, Kind::R, false),
    (2, 7, Kind::R, false),
    (0, 3, Kind::N, false),
    (3, 3, Kind::B, false),
];
impl RawUniverse for CastleBox {
    fn name(&self) -> String {
        format!("S-CASTLEBOX(items<={})", self.max_items)
    }
    fn bounds(&self) -> Value {
        json!({"colours": 2, "king_files": 8, "rook_files": "every admissible file of one wing (both wings)", "menu_items": BOX_MENU.len(), "subset_size_max": self.max_items, "enemy_king": "far corner", "side": "the castling side"})
    }
    fn parts(&self) -> usize {
        2 * 8
    }
    fn part(&self, i: usize, f: &mut dyn FnMut(Pos)) {
        let c = Col::ALL[i / 8];
        let kf = (i % 8) as u8;
        let br = c.back_rank();
        let them = c.other();
        let ksq = sq(kf, br);
        for wing in [SHORT, LONG] {
            let files: Vec<u8> = if wing == SHORT { (kf + 1..8).collect() } else { (0..kf).collect() };
            for rf in files {
                let mut base = Pos::empty();
                base.stm = c;
                put(&mut base, ksq, Kind::K, c);
                put(&mut base, sq(rf, br), Kind::R, c);
                base.rights[c as usize][wing] = Some(rf);
                // enemy king in the far corner away from the action
                let ek = sq(if kf < 4 { 7 } else { 0 }, them.back_rank());
                put(&mut base, ek, Kind::K, them);
                // menu items that fit on the board and on empty squares
                let items: Vec<(Sq, Kind, Col)> = BOX_MENU
                    .iter()
                    .filter_map(|&(df, rr, k, own)| {
                        let file = kf as i32 + df;
                        if !(0..8).contains(&file) {
                            return None;
                        }
                        let s = sq(file as u8, c.rel_rank(rr));
                        if base.sq[s as usize].is_some() {
                            return None;
                        }
                        Some((s, k, if own { c } else { them }))
                    })
                    .collect();
                fn rec(p: &Pos, items: &[(Sq, Kind, Col)], from: usize, left: usize, f: &mut dyn FnMut(Pos)) {
                    f(p.clone());
                    if left == 0 {
                        return;
                    }
                    for j in from..items.len() {
                        let (s, k, col) = items[j];
                        if p.sq[s as usize].is_some() {
                            continue;
                        }
                        let mut q = p.clone();
                        q.sq[s as usize] = Some((k, col));
                        rec(&q, items, j + 1, left - 1, f);
                    }
                }
                rec(&base, &items, 0, self.max_items, f);
            }
        }
    }
}

/// All one-edit neighbours of a corpus of accepted boards ("one deviation from a valid state").
pub struct Edit {
    pub corpus: Vec<Pos>,
    pub two_edits_for_first: usize,
}
pub fn single_edits(base: &Pos, f: &mut dyn FnMut(Pos, &'static str)) {
    let contents: Vec<Option<(Kind, Col)>> =
        std::iter::once(None).chain(Col::ALL.iter().flat_map(|&c| Kind::ALL.iter().map(move |&k| Some((k, c))))).collect();
    for s in 0..64usize {
        for &c in &contents {
            if base.sq[s] != c {
                let mut p = base.clone();
                p.sq[s] = c;
                f(p, "placement");
            }
        }
    }
    for c in 0..2 {
        for w in 0..2 {
            for v in std::iter::once(None).chain((0..8u8).map(Some)) {
                if base.rights[c][w] != v {
                    let mut p = base.clone();
                    p.rights[c][w] = v;
                    f(p, "rights");
                }
            }
        }
    }
    for v in std::iter::once(None).chain((0..64u8).map(Some)) {
        if base.ep != v {
            let mut p = base.clone();
            p.ep = v;
            f(p, "ep");
        }
    }
    for hm in [0u8, 99, 100, 101, 255] {
        if base.hm != hm {
            let mut p = base.clone();
            p.hm = hm;
            f(p, "halfmove");
        }
    }
    for fm in [0u16, 1, 65535] {
        if base.fm != fm {
            let mut p = base.clone();
            p.fm = fm;
            f(p, "fullmove");
        }
    }
    let mut p = base.clone();
    p.stm = base.stm.other();
    f(p, "side");
}
impl RawUniverse for Edit {
    fn name(&self) -> String {
        "S-EDIT".into()
    }
    fn bounds(&self) -> Value {
        json!({"corpus_boards": self.corpus.len(), "edits": "each square to each of 13 contents; each right to none/a..h; ep to none/any square; hm in {0,99,100,101,255}; fm in {0,1,65535}; side flipped",
               "two_edit_neighbours_for_first_n_boards": self.two_edits_for_first})
    }
    fn parts(&self) -> usize {
        self.corpus.len()
    }
    fn part(&self, i: usize, f: &mut dyn FnMut(Pos)) {
        let base = &self.corpus[i];
        f(base.clone());
        let mut firsts = Vec::new();
        single_edits(base, &mut |p, _| {
            if i < self.two_edits_for_first {
                firsts.push(p.clone());
            }
            f(p);
        });
        for p1 in firsts {
            single_edits(&p1, &mut |p, _| f(p));
        }
    }
}

/// Every combination of the four castling-right slots (none / a..h each: 9^4) on each corpus board.
pub struct RightsProduct {
    pub corpus: Vec<Pos>,
}
impl RawUniverse for RightsProduct {
    fn name(&self) -> String {
        "S-RIGHTS".into()
    }
    fn bounds(&self) -> Value {
        json!({"corpus_boards": self.corpus.len(), "rights": "all 9^4 assignments of none / file a..h to (white short, white long, black short, black long)"})
    }
    fn parts(&self) -> usize {
        self.corpus.len()
    }
    fn part(&self, i: usize, f: &mut dyn FnMut(Pos)) {
        let base = &self.corpus[i];
        let opts: Vec<Option<u8>> = std::iter::once(None).chain((0..8u8).map(Some)).collect();
        for &a in &opts {
            for &b in &opts {
                for &c in &opts {
                    for &d in &opts {
                        let mut p = base.clone();
                        p.rights = [[a, b], [c, d]];
                        f(p);
                    }
                }
            }
        }
    }
}

/// The corpus used by S-EDIT and by the text universes: α of accepted boards.
pub fn corpus_positions(quick: bool, sink: &Sink) -> Vec<Pos> {
    let mut out: Vec<Pos> = Vec::new();
    for (_, b) in mid_roots(sink) {
        out.push(alpha(&b));
    }
    for (_, b) in clock_roots(sink).into_iter().step_by(5) {
        out.push(alpha(&b));
    }
    let step = if quick { 16 } else { 1 };
    for (i, (_, b)) in roots_960(sink).into_iter().enumerate() {
        if i % step == 0 {
            out.push(alpha(&b));
        }
    }
    // a few double-960 starts with different set-ups per side
    for (w, bl) in [(0u32, 959u32), (959, 0), (518, 3), (100, 700), (333, 404)] {
        if let Ok(b) = RootDesc::Dfrc(w, bl).board() {
            out.push(alpha(&b));
        }
    }
    out
}

/// every `stride`-th placement of the two kings (in enumeration order) — a deterministic sub-family
pub fn king_pairs_stride(stride: usize) -> Vec<(Sq, Sq)> {
    let mut v = Vec::new();
    let mut i = 0usize;
    for a in 0..64u8 {
        for b in 0..64u8 {
            if a != b {
                if i % stride == 0 {
                    v.push((a, b));
                }
                i += 1;
            }
        }
    }
    v
}

/// one king in the a1 corner, the other at distance two (both colour assignments): the family in
/// which stalemates / mates with few pieces and "the only legal moves belong to a pinned piece" live
pub fn cornered_king_placements() -> Vec<(Sq, Sq)> {
    let mut v = Vec::new();
    for o in [2u8, 10, 16, 17, 18] {
        v.push((0, o));
        v.push((o, 0));
    }
    v
}

pub fn six_king_placements() -> Vec<(Sq, Sq)> {
    vec![(4, 60), (0, 63), (27, 36), (6, 57), (20, 44), (24, 39)]
}
