//! The explorer: explicit-state layer-synchronous BFS with exact keys (and merge comparison), and a
//! stateless DFS for very large root sets. Transitions are the real library's `play_unchecked` /
//! `null_move`; the set of transitions to take is decided by the reference model *and* the library
//! (a disagreement is the business of C01/C14's monitors; exploration continues on the agreed part).

use crate::bridge::*;
use crate::report::{Sink, Tally};
use cozy_chess::*;
use rayon::prelude::*;
use refmodel::{Mv, Pos};
use serde_json::{json, Value};
use std::collections::HashMap;

#[derive(Clone, Copy, PartialEq, Eq, Debug, PartialOrd, Ord, Hash)]
pub enum Act {
    Move(Mv),
    Null,
}

impl Act {
    pub fn text(&self) -> String {
        match self {
            Act::Move(m) => m.text(),
            Act::Null => "null".to_string(),
        }
    }
    pub fn parse(s: &str) -> Option<Act> {
        if s == "null" {
            return Some(Act::Null);
        }
        let b = s.as_bytes();
        if b.len() < 4 || b.len() > 5 {
            return None;
        }
        let sqp = |f: u8, r: u8| -> Option<u8> {
            if (b'a'..=b'h').contains(&f) && (b'1'..=b'8').contains(&r) {
                Some((r - b'1') * 8 + (f - b'a'))
            } else {
                None
            }
        };
        let from = sqp(b[0], b[1])?;
        let to = sqp(b[2], b[3])?;
        let promo = if b.len() == 5 { Some(refmodel::Kind::from_lower(b[4] as char)?) } else { None };
        Some(Act::Move(Mv { from, to, promo }))
    }
}

/// Where a root came from — exactly what entered the library.
#[derive(Clone, Debug)]
pub enum RootDesc {
    /// text given to `Board::from_fen(_, true)` (falling back to `str::parse`)
    Fen(String),
    /// `Board::double_chess960_startpos(w, b)`
    Dfrc(u32, u32),
    /// raw builder state given to `BoardBuilder::build`
    Raw(Pos),
    /// a curated game line: `double_chess960_startpos(w, b)` followed by these moves (library
    /// encoding), each played with `play_unchecked` — a position provably reached by legal play
    Line(u32, u32, Vec<String>),
}

pub fn raw_json(p: &Pos) -> Value {
    let fen = refmodel::text::to_fen(p, true);
    let placement = fen.split(' ').next().unwrap().to_string();
    json!({
        "placement": placement,
        "stm": if p.stm == refmodel::Col::W { "w" } else { "b" },
        "rights": [[p.rights[0][0], p.rights[0][1]], [p.rights[1][0], p.rights[1][1]]],
        "ep": p.ep, "hm": p.hm, "fm": p.fm,
    })
}

pub fn raw_from_json(v: &Value) -> Option<Pos> {
    let mut p = Pos::empty();
    p.sq = refmodel::text::decode_placement(v.get("placement")?.as_str()?)?;
    p.stm = if v.get("stm")?.as_str()? == "w" { refmodel::Col::W } else { refmodel::Col::B };
    let r = v.get("rights")?.as_array()?;
    for c in 0..2 {
        for w in 0..2 {
            p.rights[c][w] = r.get(c)?.as_array()?.get(w)?.as_u64().map(|x| x as u8);
        }
    }
    p.ep = v.get("ep")?.as_u64().map(|x| x as u8);
    p.hm = v.get("hm")?.as_u64()? as u8;
    p.fm = v.get("fm")?.as_u64()? as u16;
    Some(p)
}

impl RootDesc {
    pub fn json(&self) -> Value {
        match self {
            RootDesc::Fen(s) => json!({ "fen": s }),
            RootDesc::Dfrc(w, b) => json!({ "dfrc": [w, b] }),
            RootDesc::Raw(p) => json!({ "raw": raw_json(p) }),
            RootDesc::Line(w, b, ms) => json!({ "line": {"start": [w, b], "moves": ms} }),
        }
    }
    pub fn from_json(v: &Value) -> Option<RootDesc> {
        if let Some(s) = v.get("fen").and_then(|x| x.as_str()) {
            return Some(RootDesc::Fen(s.to_string()));
        }
        if let Some(a) = v.get("dfrc").and_then(|x| x.as_array()) {
            return Some(RootDesc::Dfrc(a.first()?.as_u64()? as u32, a.get(1)?.as_u64()? as u32));
        }
        if let Some(r) = v.get("raw") {
            return Some(RootDesc::Raw(raw_from_json(r)?));
        }
        if let Some(l) = v.get("line") {
            let st = l.get("start")?.as_array()?;
            let ms = l.get("moves")?.as_array()?.iter().filter_map(|m| m.as_str().map(|x| x.to_string())).collect();
            return Some(RootDesc::Line(st.first()?.as_u64()? as u32, st.get(1)?.as_u64()? as u32, ms));
        }
        None
    }
    /// construct the board exactly the way the universe did
    pub fn board(&self) -> Result<Board, String> {
        match self {
            RootDesc::Fen(s) => guarded(|| Board::from_fen(s, true).or_else(|_| s.parse::<Board>()))?
                .map_err(|e| format!("root FEN rejected: {} ({})", s, e)),
            RootDesc::Dfrc(w, b) => guarded(|| Board::double_chess960_startpos(*w, *b)),
            RootDesc::Raw(p) => build(p)?.map_err(|e| format!("root builder state rejected: {}", e)),
            RootDesc::Line(w, b, ms) => {
                let mut bd = guarded(|| Board::double_chess960_startpos(*w, *b))?;
                for m in ms {
                    let act = Act::parse(m).ok_or(format!("bad move text {} in line", m))?;
                    // the line must be legal by the reference model (it is what makes the position
                    // provably reachable)
                    if let Act::Move(mv) = act {
                        if !alpha(&bd).legal_moves().contains(&mv) {
                            return Err(format!("curated line contains the illegal move {}", m));
                        }
                    }
                    bd = apply(&bd, act)?;
                }
                Ok(bd)
            }
        }
    }
}

pub fn case_json(root: &RootDesc, path: &[Act]) -> Value {
    json!({ "root": root.json(), "path": path.iter().map(|a| a.text()).collect::<Vec<_>>() })
}

/// Re-create the board a case describes with plain library calls (used by replay).
pub fn board_of_case(case: &Value) -> Result<Board, String> {
    let root = RootDesc::from_json(case.get("root").ok_or("case without root")?).ok_or("bad root")?;
    let mut b = root.board()?;
    if let Some(path) = case.get("path").and_then(|p| p.as_array()) {
        for a in path {
            let act = Act::parse(a.as_str().ok_or("bad path element")?).ok_or("bad action text")?;
            b = apply(&b, act)?;
        }
    }
    Ok(b)
}

pub fn apply(b: &Board, act: Act) -> Result<Board, String> {
    match act {
        Act::Move(m) => {
            let mut c = b.clone();
            guarded(|| c.play_unchecked(move_of(m)))?;
            Ok(c)
        }
        Act::Null => guarded(|| b.null_move())?.ok_or_else(|| "null move refused".to_string()),
    }
}

#[derive(Clone, Copy, PartialEq, Eq, Hash, PartialOrd, Ord, Debug)]
pub struct Key(pub [u64; 5]);

const CLOCK_MASK: u64 = !((0xFFu64 << 24) | (0xFFFFu64 << 32));

impl Key {
    /// exact key: placement, side, rights, ep, both clocks — no abstraction
    pub fn of(p: &Pos) -> Key {
        let mut k = [0u64; 5];
        for s in 0..64usize {
            let code: u64 = match p.sq[s] {
                None => 0,
                Some((kind, c)) => 1 + kind as u64 + 6 * c as u64,
            };
            k[s / 16] |= code << ((s % 16) * 4);
        }
        let mut meta = p.stm as u64;
        let mut shift = 1;
        for c in 0..2 {
            for w in 0..2 {
                meta |= (p.rights[c][w].map_or(15u64, |f| f as u64)) << shift;
                shift += 4;
            }
        }
        meta |= (p.ep.map_or(127u64, |s| s as u64)) << 17;
        meta |= (p.hm as u64) << 24;
        meta |= (p.fm as u64) << 32;
        k[4] = meta;
        Key(k)
    }
    /// the same without the clocks (the domain of the hash)
    pub fn position_only(&self) -> Key {
        let mut k = self.0;
        k[4] &= CLOCK_MASK;
        Key(k)
    }
}

/// What a monitor sees of a visited state.
pub struct View<'a> {
    pub board: &'a Board,
    pub pos: &'a Pos,
    pub key: Key,
    /// reference legal moves, sorted
    pub ref_moves: &'a [Mv],
    /// library moves in delivery order (with duplicates, if any)
    pub lib_moves: &'a [Mv],
    pub batches: &'a [PieceMoves],
    /// Some(message) if move generation itself panicked
    pub gen_panic: Option<&'a str>,
    pub root: &'a RootDesc,
    pub path: &'a [Act],
    pub depth: usize,
}

impl<'a> View<'a> {
    pub fn case(&self) -> Value {
        let mut c = case_json(self.root, self.path);
        c["kind"] = json!("state");
        c
    }
    pub fn edge_case(&self, act: Act) -> Value {
        let mut p = self.path.to_vec();
        p.push(act);
        let mut c = case_json(self.root, &p);
        c["kind"] = json!("edge");
        c
    }
    pub fn nontrivial(&self) -> bool {
        self.pos.in_check(self.pos.stm)
            || !self.pos.pinned().is_empty()
            || self.pos.ep.is_some()
            || self.pos.rights.iter().flatten().any(|r| r.is_some())
    }
}

pub trait Monitor: Sync {
    /// called once per visited state
    fn state(&self, _v: &View, _t: &mut Tally, _s: &Sink) {}
    /// called once per explored transition; `child` is what the library produced
    /// (Err = the library panicked, or for Null: Ok(None) = refused)
    fn edge(&self, _v: &View, _act: Act, _child: &Result<Option<Board>, String>, _t: &mut Tally, _s: &Sink) {}
    /// two different histories reached the same exact key
    fn merge(&self, _a: &Board, _case_a: &dyn Fn() -> Value, _b: &Board, _case_b: &dyn Fn() -> Value, _t: &mut Tally, _s: &Sink) {}
    /// does this monitor need edges at the last layer too (e.g. successor checks)?
    fn wants_frontier_edges(&self) -> bool {
        false
    }
}

pub struct Bounds {
    pub depth: usize,
    pub max_nulls: u8,
}

struct Entry {
    board: Board,
    parent: u32,
    act: Act,
    nulls: u8,
    root: u32,
}

fn agreed_moves(ref_moves: &[Mv], lib_moves: &[Mv]) -> Vec<Mv> {
    let mut v = Vec::with_capacity(ref_moves.len());
    v.extend(ref_moves.iter().copied().filter(|m| lib_moves.contains(m)));
    v
}

fn path_of(layers: &[Vec<Entry>], depth: usize, idx: usize) -> Vec<Act> {
    let mut acts = Vec::with_capacity(depth);
    let mut d = depth;
    let mut i = idx;
    while d > 0 {
        let e = &layers[d][i];
        acts.push(e.act);
        i = e.parent as usize;
        d -= 1;
    }
    acts.reverse();
    acts
}

/// Explicit-state search over all roots jointly. Returns the tally (states = distinct keys).
pub fn bfs(roots: &[(RootDesc, Board)], bounds: &Bounds, mon: &dyn Monitor, sink: &Sink) -> Tally {
    let mut layers: Vec<Vec<Entry>> = Vec::new();
    let mut total = Tally::default();
    let mut visited: HashMap<Key, u8> = HashMap::new();
    // layer 0: the roots, de-duplicated by key
    {
        let mut l0: Vec<(Key, Entry)> = roots
            .iter()
            .enumerate()
            .map(|(i, (_, b))| (Key::of(&alpha(b)), Entry { board: b.clone(), parent: 0, act: Act::Null, nulls: 0, root: i as u32 }))
            .collect();
        l0.sort_by(|a, b| a.0.cmp(&b.0).then(a.1.root.cmp(&b.1.root)));
        l0.dedup_by(|b, a| a.0 == b.0);
        for (k, e) in &l0 {
            visited.insert(*k, e.nulls);
        }
        layers.push(l0.into_iter().map(|(_, e)| e).collect());
    }
    let frontier_edges = mon.wants_frontier_edges();
    for depth in 0..=bounds.depth {
        let expand = depth < bounds.depth;
        let cur = &layers[depth];
        let layers_ref = &layers;
        let results: Vec<(Tally, Vec<(Key, Entry)>)> = cur
            .par_iter()
            .enumerate()
            .fold(
                || (Tally::default(), Vec::new()),
                |(mut t, mut out), (idx, e)| {
                    if sink.too_many() {
                        return (t, out);
                    }
                    let pos = alpha(&e.board);
                    let key = Key::of(&pos);
                    let ref_moves = pos.legal_moves();
                    let (lib_moves, batches, gen_panic) = match guarded(|| gen_moves(&e.board)) {
                        Ok((a, b)) => (a, b, None),
                        Err(e) => (Vec::new(), Vec::new(), Some(e)),
                    };
                    let path = path_of(layers_ref, depth, idx);
                    let root = &roots[e.root as usize].0;
                    let v = View { board: &e.board, pos: &pos, key, ref_moves: &ref_moves, lib_moves: &lib_moves, batches: &batches, gen_panic: gen_panic.as_deref(), root, path: &path, depth };
                    t.states += 1;
                    t.evals += 1;
                    if v.nontrivial() {
                        t.nontrivial += 1;
                    }
                    if sink.want_sample(idx as u64 + 31 * depth as u64) {
                        sink.sample(|| json!({"state": shredder(&e.board), "root": root.json(), "path": path.iter().map(|a| a.text()).collect::<Vec<_>>()}));
                    }
                    mon.state(&v, &mut t, sink);
                    if expand || frontier_edges {
                        for m in agreed_moves(&ref_moves, &lib_moves) {
                            let child = apply(&e.board, Act::Move(m)).map(Some);
                            t.transitions += 1;
                            mon.edge(&v, Act::Move(m), &child, &mut t, sink);
                            if expand {
                                if let Ok(Some(cb)) = child {
                                    let ck = Key::of(&alpha(&cb));
                                    out.push((ck, Entry { board: cb, parent: idx as u32, act: Act::Move(m), nulls: e.nulls, root: e.root }));
                                }
                            }
                        }
                        if e.nulls < bounds.max_nulls || (frontier_edges && bounds.max_nulls > 0) {
                            let child = guarded(|| e.board.null_move());
                            t.transitions += 1;
                            mon.edge(&v, Act::Null, &child, &mut t, sink);
                            if expand && e.nulls < bounds.max_nulls {
                                if let Ok(Some(cb)) = child {
                                    let ck = Key::of(&alpha(&cb));
                                    out.push((ck, Entry { board: cb, parent: idx as u32, act: Act::Null, nulls: e.nulls + 1, root: e.root }));
                                }
                            }
                        }
                    }
                    (t, out)
                },
            )
            .collect();
        let mut next: Vec<(Key, Entry)> = Vec::new();
        for (t, out) in results {
            total.absorb(t);
            next.extend(out);
        }
        if !expand {
            break;
        }
        next.par_sort_unstable_by(|a, b| {
            a.0.cmp(&b.0).then(a.1.nulls.cmp(&b.1.nulls)).then(a.1.parent.cmp(&b.1.parent)).then(a.1.act.cmp(&b.1.act))
        });
        // merge duplicates: the representative is the first (fewest null moves, then lowest parent)
        let mut new_layer: Vec<Entry> = Vec::new();
        let mut merges: Vec<(usize, Entry)> = Vec::new(); // (index of representative in new_layer, other)
        let mut last_key: Option<Key> = None;
        for (k, e) in next {
            if last_key == Some(k) {
                merges.push((new_layer.len() - 1, e));
                continue;
            }
            if let Some(&n) = visited.get(&k) {
                // seen in an earlier layer (only possible with saturated clocks)
                if n <= e.nulls {
                    total.hit("revisit-earlier-layer");
                    continue;
                }
            }
            visited.insert(k, e.nulls);
            last_key = Some(k);
            new_layer.push(e);
        }
        layers.push(new_layer);
        // merge comparison (two histories, same key)
        let d1 = depth + 1;
        let layers_ref = &layers;
        let mt: Tally = merges
            .par_iter()
            .fold(Tally::default, |mut t, (rep_idx, other)| {
                let rep = &layers_ref[d1][*rep_idx];
                t.hit("merged-histories");
                let case_a = || case_json(&roots[rep.root as usize].0, &path_of(layers_ref, d1, *rep_idx));
                let case_b = || {
                    let mut p = path_of(layers_ref, depth, other.parent as usize);
                    p.push(other.act);
                    case_json(&roots[other.root as usize].0, &p)
                };
                mon.merge(&rep.board, &case_a, &other.board, &case_b, &mut t, sink);
                t
            })
            .reduce(Tally::default, Tally::merge);
        total.absorb(mt);
    }
    total
}

/// Stateless depth-first exploration from one root (no visited set; every node is checked).
pub fn dfs(root: &RootDesc, board: &Board, bounds: &Bounds, mon: &dyn Monitor, sink: &Sink, t: &mut Tally) {
    let mut path = Vec::new();
    dfs_rec(root, board, bounds, mon, sink, t, &mut path, 0, None);
}

/// Like `dfs`, but only the moves in `first` are expanded at the root (its other edges are still
/// shown to the monitor); deeper plies are unrestricted.
pub fn dfs_first(root: &RootDesc, board: &Board, bounds: &Bounds, mon: &dyn Monitor, sink: &Sink, t: &mut Tally, first: &[refmodel::Mv]) {
    let mut path = Vec::new();
    dfs_rec(root, board, bounds, mon, sink, t, &mut path, 0, Some(first));
}

#[allow(clippy::too_many_arguments)]
fn dfs_rec(root: &RootDesc, board: &Board, bounds: &Bounds, mon: &dyn Monitor, sink: &Sink, t: &mut Tally, path: &mut Vec<Act>, nulls: u8, first: Option<&[refmodel::Mv]>) {
    let depth = path.len();
    let pos = alpha(board);
    let key = Key::of(&pos);
    let ref_moves = pos.legal_moves();
    let (lib_moves, batches, gen_panic) = match guarded(|| gen_moves(board)) {
        Ok((a, b)) => (a, b, None),
        Err(e) => (Vec::new(), Vec::new(), Some(e)),
    };
    let expand = depth < bounds.depth;
    let fe = mon.wants_frontier_edges();
    let mut children: Vec<(Act, Board)> = Vec::with_capacity(if expand { ref_moves.len() + 1 } else { 0 });
    {
        let v = View { board, pos: &pos, key, ref_moves: &ref_moves, lib_moves: &lib_moves, batches: &batches, gen_panic: gen_panic.as_deref(), root, path, depth };
        t.evals += 1;
        if depth == 0 {
            t.states += 1;
            if v.nontrivial() {
                t.nontrivial += 1;
            }
        }
        mon.state(&v, t, sink);
        if expand || fe {
            for m in agreed_moves(&ref_moves, &lib_moves) {
                let child = apply(board, Act::Move(m)).map(Some);
                t.transitions += 1;
                mon.edge(&v, Act::Move(m), &child, t, sink);
                if expand && first.map_or(true, |f| f.contains(&m)) {
                    if let Ok(Some(cb)) = child {
                        children.push((Act::Move(m), cb));
                    }
                }
            }
            if first.is_none() && (nulls < bounds.max_nulls || (fe && bounds.max_nulls > 0)) {
                let child = guarded(|| board.null_move());
                t.transitions += 1;
                mon.edge(&v, Act::Null, &child, t, sink);
                if expand && nulls < bounds.max_nulls {
                    if let Ok(Some(cb)) = child {
                        children.push((Act::Null, cb));
                    }
                }
            }
        }
    }
    for (a, cb) in children {
        path.push(a);
        dfs_rec(root, &cb, bounds, mon, sink, t, path, nulls + if a == Act::Null { 1 } else { 0 }, None);
        path.pop();
    }
}

/// Stateless exploration of many roots in parallel.
pub fn dfs_all<I>(roots: I, bounds: &Bounds, mon: &dyn Monitor, sink: &Sink) -> Tally
where
    I: ParallelIterator<Item = (RootDesc, Board)>,
{
    roots
        .fold(Tally::default, |mut t, (rd, b)| {
            if !sink.too_many() {
                if sink.want_sample(t.states) {
                    sink.sample(|| json!({"state": shredder(&b), "root": rd.json(), "path": []}));
                }
                dfs(&rd, &b, bounds, mon, sink, &mut t);
            }
            t
        })
        .reduce(Tally::default, Tally::merge)
}
