//! Abstraction function α (Board -> refmodel::Pos), its inverse through the BoardBuilder, and small
//! conversions. Everything goes through cozy-chess's *public* API.

use cozy_chess::*;
use refmodel::{Col, Kind, Mv, Pos, Sq};
use std::panic::{catch_unwind, AssertUnwindSafe};

pub fn kind_of(p: Piece) -> Kind {
    match p {
        Piece::Pawn => Kind::P,
        Piece::Knight => Kind::N,
        Piece::Bishop => Kind::B,
        Piece::Rook => Kind::R,
        Piece::Queen => Kind::Q,
        Piece::King => Kind::K,
    }
}
pub fn piece_of(k: Kind) -> Piece {
    match k {
        Kind::P => Piece::Pawn,
        Kind::N => Piece::Knight,
        Kind::B => Piece::Bishop,
        Kind::R => Piece::Rook,
        Kind::Q => Piece::Queen,
        Kind::K => Piece::King,
    }
}
pub fn col_of(c: Color) -> Col {
    match c {
        Color::White => Col::W,
        Color::Black => Col::B,
    }
}
pub fn color_of(c: Col) -> Color {
    match c {
        Col::W => Color::White,
        Col::B => Color::Black,
    }
}
#[inline]
pub fn sq_of(s: Square) -> Sq {
    s as u8
}
#[inline]
pub fn square_of(s: Sq) -> Square {
    Square::index(s as usize)
}
pub fn mv_of(m: Move) -> Mv {
    Mv { from: sq_of(m.from), to: sq_of(m.to), promo: m.promotion.map(kind_of) }
}
pub fn move_of(m: Mv) -> Move {
    Move { from: square_of(m.from), to: square_of(m.to), promotion: m.promo.map(piece_of) }
}
pub fn bb_of(v: &[Sq]) -> u64 {
    v.iter().fold(0u64, |a, &s| a | (1u64 << s))
}

/// α: read a board through piece_on/color_on, side_to_move, castle_rights, en_passant and clocks.
pub fn alpha(b: &Board) -> Pos {
    let mut p = Pos::empty();
    for s in 0..64u8 {
        let sqr = square_of(s);
        if let (Some(pc), Some(c)) = (b.piece_on(sqr), b.color_on(sqr)) {
            p.sq[s as usize] = Some((kind_of(pc), col_of(c)));
        }
    }
    p.stm = col_of(b.side_to_move());
    for c in [Color::White, Color::Black] {
        let r = b.castle_rights(c);
        p.rights[col_of(c) as usize] = [r.short.map(|f| f as u8), r.long.map(|f| f as u8)];
    }
    p.ep = b.en_passant().map(|f| refmodel::sq(f as u8, p.stm.rel_rank(5)));
    p.hm = b.halfmove_clock();
    p.fm = b.fullmove_number();
    p
}

/// The redundant accessors (pieces, colors, colored_pieces, occupied, king) must describe the same
/// mailbox as piece_on/color_on.
pub fn accessors_consistent(b: &Board, p: &Pos) -> Result<(), String> {
    let mut occ = 0u64;
    for c in [Color::White, Color::Black] {
        let mut colour_bb = 0u64;
        for pc in Piece::ALL {
            let want = (0..64u8)
                .filter(|&s| p.sq[s as usize] == Some((kind_of(pc), col_of(c))))
                .fold(0u64, |a, s| a | (1 << s));
            let got = b.colored_pieces(c, pc).0;
            if got != want {
                return Err(format!("colored_pieces({:?},{:?}) = {:#x}, mailbox says {:#x}", c, pc, got, want));
            }
            colour_bb |= want;
        }
        if b.colors(c).0 != colour_bb {
            return Err(format!("colors({:?}) = {:#x}, mailbox says {:#x}", c, b.colors(c).0, colour_bb));
        }
        occ |= colour_bb;
        if let Some(k) = p.king_sq(col_of(c)) {
            if sq_of(b.king(c)) != k {
                return Err(format!("king({:?}) = {}, mailbox says {}", c, b.king(c), refmodel::sq_name(k)));
            }
        }
    }
    for pc in Piece::ALL {
        let want = (0..64u8)
            .filter(|&s| matches!(p.sq[s as usize], Some((k, _)) if k == kind_of(pc)))
            .fold(0u64, |a, s| a | (1 << s));
        if b.pieces(pc).0 != want {
            return Err(format!("pieces({:?}) = {:#x}, mailbox says {:#x}", pc, b.pieces(pc).0, want));
        }
    }
    if b.occupied().0 != occ {
        return Err(format!("occupied() = {:#x}, mailbox says {:#x}", b.occupied().0, occ));
    }
    Ok(())
}

/// raw state -> BoardBuilder (None when the state names a rook file > 7, which the builder type
/// cannot hold)
pub fn builder_of(p: &Pos) -> BoardBuilder {
    let mut bb = BoardBuilder::empty();
    for s in 0..64u8 {
        bb.board[s as usize] = p.sq[s as usize].map(|(k, c)| (piece_of(k), color_of(c)));
    }
    bb.side_to_move = color_of(p.stm);
    for c in 0..2 {
        bb.castle_rights[c] = CastleRights {
            short: p.rights[c][0].map(|f| File::index(f as usize)),
            long: p.rights[c][1].map(|f| File::index(f as usize)),
        };
    }
    bb.en_passant = p.ep.map(square_of);
    bb.halfmove_clock = p.hm;
    bb.fullmove_number = p.fm;
    bb
}

pub fn pos_of_builder(bb: &BoardBuilder) -> Pos {
    let mut p = Pos::empty();
    for s in 0..64usize {
        p.sq[s] = bb.board[s].map(|(pc, c)| (kind_of(pc), col_of(c)));
    }
    p.stm = col_of(bb.side_to_move);
    for c in 0..2 {
        p.rights[c] = [bb.castle_rights[c].short.map(|f| f as u8), bb.castle_rights[c].long.map(|f| f as u8)];
    }
    p.ep = bb.en_passant.map(sq_of);
    p.hm = bb.halfmove_clock;
    p.fm = bb.fullmove_number;
    p
}

thread_local! {
    static GUARD_DEPTH: std::cell::Cell<u32> = const { std::cell::Cell::new(0) };
}
pub fn guard_depth() -> u32 {
    GUARD_DEPTH.with(|d| d.get())
}

/// Run a library call under catch_unwind; a panic becomes Err(message).
pub fn guarded<T>(f: impl FnOnce() -> T) -> Result<T, String> {
    GUARD_DEPTH.with(|d| d.set(d.get() + 1));
    let r = catch_unwind(AssertUnwindSafe(f));
    GUARD_DEPTH.with(|d| d.set(d.get() - 1));
    match r {
        Ok(v) => Ok(v),
        Err(e) => {
            let msg = if let Some(s) = e.downcast_ref::<&str>() {
                s.to_string()
            } else if let Some(s) = e.downcast_ref::<String>() {
                s.clone()
            } else {
                "panic".to_string()
            };
            Err(format!("PANIC: {}", msg))
        }
    }
}

/// build through the builder, guarded
pub fn build(p: &Pos) -> Result<Result<Board, BoardBuilderError>, String> {
    let bb = builder_of(p);
    guarded(|| bb.build())
}

/// All moves delivered by generate_moves, unpacked, in delivery order; also the batches.
pub fn gen_moves(b: &Board) -> (Vec<Mv>, Vec<PieceMoves>) {
    let mut batches = Vec::with_capacity(18);
    b.generate_moves(|pm| {
        batches.push(pm);
        false
    });
    let mut out = Vec::with_capacity(96);
    for pm in &batches {
        for m in *pm {
            out.push(mv_of(m));
        }
    }
    (out, batches)
}

pub fn lib_moves_sorted(b: &Board) -> Vec<Mv> {
    let (mut v, _) = gen_moves(b);
    v.sort_unstable();
    v
}

pub fn shredder(b: &Board) -> String {
    // pre-sized: glibc's realloc takes the arena lock, which serialises the worker threads
    use std::fmt::Write;
    let mut s = String::with_capacity(100);
    let _ = write!(s, "{:#}", b);
    s
}
pub fn plain_fen(b: &Board) -> String {
    use std::fmt::Write;
    let mut s = String::with_capacity(100);
    let _ = write!(s, "{}", b);
    s
}

pub fn status_of(s: GameStatus) -> refmodel::Status {
    match s {
        GameStatus::Won => refmodel::Status::Won,
        GameStatus::Drawn => refmodel::Status::Drawn,
        GameStatus::Ongoing => refmodel::Status::Ongoing,
    }
}

/// every one of the 64*64*7 move values
pub fn all_move_values() -> Vec<Move> {
    let promos = [None, Some(Piece::Pawn), Some(Piece::Knight), Some(Piece::Bishop), Some(Piece::Rook), Some(Piece::Queen), Some(Piece::King)];
    let mut v = Vec::with_capacity(64 * 64 * 7);
    for f in 0..64u8 {
        for t in 0..64u8 {
            for p in promos {
                v.push(Move { from: square_of(f), to: square_of(t), promotion: p });
            }
        }
    }
    v
}
