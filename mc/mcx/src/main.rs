//! mcx — bounded exhaustive model checker for cozy-chess (see /verif/DESIGN.md).
//!
//!   mcx run <PROP> <quick|thorough> --config <name> --partial <file>
//!   mcx merge <PROP> <tier> <partial>...
//!   mcx replay <replay-file>
//!   mcx selftest [deep]
//!
//! exit 0 = property held on everything explored; 1 = VIOLATION line(s) printed;
//! 2 = MACHINERY-ERROR (never a verdict).

#![allow(dead_code)]
mod bridge;
mod explore;
mod props;
mod report;
mod universes;

use std::panic;

fn install_hook() {
    // Panics inside `guarded` library calls are expected events (and are turned into verdicts by
    // the monitors); anything else is a harness bug and must stay visible.
    panic::set_hook(Box::new(|info| {
        if bridge::guard_depth() == 0 {
            eprintln!("HARNESS PANIC: {}", info);
        }
    }));
}

fn selftest(deep: bool) -> i32 {
    let bad = refmodel::self_test(deep);
    if bad.is_empty() {
        eprintln!("reference model self-test ok (deep={})", deep);
        0
    } else {
        for (fen, d, want, got) in bad {
            println!("MACHINERY-ERROR reference model perft mismatch: {} depth {} expected {} got {}", fen, d, want, got);
        }
        2
    }
}

fn real_main() -> i32 {
    let args: Vec<String> = std::env::args().collect();
    if args.len() < 2 {
        println!("MACHINERY-ERROR usage");
        return 2;
    }
    match args[1].as_str() {
        "selftest" => selftest(args.get(2).map(|s| s == "deep").unwrap_or(false)),
        "run" => {
            if args.len() < 4 {
                println!("MACHINERY-ERROR usage: run PROP TIER --config C --partial F");
                return 2;
            }
            let prop = args[2].clone();
            let tier = std::env::var("VERIF_TIER").ok().filter(|t| t == "quick" || t == "thorough").unwrap_or(args[3].clone());
            let mut config = "magic-chk".to_string();
            let mut partial = format!("/verif/target/partials/{}.{}.json", prop, "magic-chk");
            let mut i = 4;
            while i + 1 < args.len() {
                match args[i].as_str() {
                    "--config" => config = args[i + 1].clone(),
                    "--partial" => partial = args[i + 1].clone(),
                    _ => {}
                }
                i += 2;
            }
            if tier != "quick" && tier != "thorough" {
                println!("MACHINERY-ERROR bad tier {}", tier);
                return 2;
            }
            let st = selftest(false);
            if st != 0 {
                return st;
            }
            let mut run = report::Run::new(&prop, &tier, &config);
            if let Err(e) = props::run(&mut run) {
                println!("MACHINERY-ERROR {}", e);
                return 2;
            }
            report::finish(&run, &partial, &|body| props::replay(body))
        }
        "roots" => {
            // list the curated roots and anything the library (or the reference model) rejects
            let sink = report::Sink::new("roots", 0);
            println!("mid roots: {} of {}", universes::mid_roots(&sink).len(), universes::MID_ROOTS.len());
            println!("clock roots: {}", universes::clock_roots(&sink).len());
            let lr = universes::line_roots(&sink);
            let want: usize = universes::LINES.iter().map(|l| l.2.split_whitespace().count() + 1).sum();
            println!("line roots: {} of {}", lr.len(), want);
            for n in sink.take_notes() {
                println!("NOTE {}", n);
            }
            0
        }
        "moves" => {
            // debugging aid: reference and library moves of one FEN
            let b = cozy_chess::Board::from_fen(&args[2], true).or_else(|_| args[2].parse::<cozy_chess::Board>()).expect("fen");
            let p = bridge::alpha(&b);
            println!("ref: {}", p.legal_moves().iter().map(|m| m.text()).collect::<Vec<_>>().join(" "));
            println!("lib: {}", bridge::lib_moves_sorted(&b).iter().map(|m| m.text()).collect::<Vec<_>>().join(" "));
            0
        }
        "count" => {
            // distinct states of the explicit-state search without null moves (for the cross-check
            // against the stateright-based explorer)
            let depth: usize = args[2].parse().unwrap_or(0);
            let sink = report::Sink::new("count", 0);
            let roots = universes::fen_roots(&args[3..].to_vec(), &sink);
            struct Idle;
            impl explore::Monitor for Idle {}
            let t = explore::bfs(&roots, &explore::Bounds { depth, max_nulls: 0 }, &Idle, &sink);
            println!("unique={}", t.states);
            0
        }
        "merge" => {
            if args.len() < 5 {
                println!("MACHINERY-ERROR usage: merge PROP TIER partial...");
                return 2;
            }
            match report::merge_partials(&args[2], &args[3], &args[4..]) {
                Ok(()) => 0,
                Err(e) => {
                    println!("MACHINERY-ERROR {}", e);
                    2
                }
            }
        }
        "replay" => {
            let txt = match std::fs::read_to_string(&args[2]) {
                Ok(t) => t,
                Err(e) => {
                    println!("MACHINERY-ERROR cannot read {}: {}", args[2], e);
                    return 2;
                }
            };
            let body: serde_json::Value = match serde_json::from_str(&txt) {
                Ok(v) => v,
                Err(e) => {
                    println!("MACHINERY-ERROR {}: {}", args[2], e);
                    return 2;
                }
            };
            let prop = body["property"].as_str().unwrap_or("?").to_string();
            let r1 = props::replay(&body);
            let r2 = props::replay(&body);
            if r1 != r2 {
                println!("MACHINERY-ERROR replay is not deterministic: {:?} vs {:?}", r1, r2);
                return 2;
            }
            match r1 {
                Err(detail) if detail.starts_with("MACHINERY") => {
                    println!("MACHINERY-ERROR replay could not be evaluated: {}", detail);
                    2
                }
                Err(detail) => {
                    println!("VIOLATION property={} replay={}", prop, args[2]);
                    println!("  reproduced: {}", detail);
                    1
                }
                Ok(()) => {
                    println!("replay of {} does not violate {} on this tree", args[2], prop);
                    0
                }
            }
        }
        other => {
            println!("MACHINERY-ERROR unknown command {}", other);
            2
        }
    }
}

fn main() {
    install_hook();
    let code = match panic::catch_unwind(real_main) {
        Ok(c) => c,
        Err(_) => {
            println!("MACHINERY-ERROR harness panicked (see stderr)");
            2
        }
    };
    std::process::exit(code);
}
