//! Tallies, violation sink, replay artefacts, known findings, evidence files.

use serde_json::{json, Map, Value};
use std::collections::BTreeMap;
use std::sync::Mutex;
use std::time::Instant;

pub const VERIF: &str = "/verif";

#[derive(Default, Clone, Debug)]
pub struct Tally {
    /// distinct keyed states / enumerated argument tuples
    pub states: u64,
    /// real library transitions / function applications executed
    pub transitions: u64,
    /// cases on which the reference model's prediction was compared with the implementation
    pub validated: u64,
    /// everything evaluated (>= states)
    pub evals: u64,
    /// distinct non-trivial cases (rule is per check)
    pub nontrivial: u64,
    /// outcome histogram
    pub hist: BTreeMap<&'static str, u64>,
}

impl Tally {
    pub fn merge(mut self, o: Tally) -> Tally {
        self.absorb(o);
        self
    }
    pub fn absorb(&mut self, o: Tally) {
        self.states += o.states;
        self.transitions += o.transitions;
        self.validated += o.validated;
        self.evals += o.evals;
        self.nontrivial += o.nontrivial;
        for (k, v) in o.hist {
            *self.hist.entry(k).or_insert(0) += v;
        }
    }
    #[inline]
    pub fn hit(&mut self, k: &'static str) {
        *self.hist.entry(k).or_insert(0) += 1;
    }
    #[inline]
    pub fn hit_n(&mut self, k: &'static str, n: u64) {
        *self.hist.entry(k).or_insert(0) += n;
    }
}

#[derive(Clone, Debug)]
pub struct Violation {
    pub monitor: String,
    /// groups equivalent failures; at most MAX_SIGS signatures are reported, smallest case each
    pub signature: String,
    /// replayable description of exactly what entered the library
    pub case: Value,
    pub detail: String,
    pub count: u64,
}

const MAX_SIGS: usize = 5;

pub struct Sink {
    pub prop: String,
    viol: Mutex<BTreeMap<String, Violation>>,
    total: std::sync::atomic::AtomicU64,
    samples: Mutex<Vec<Value>>,
    notes: Mutex<Vec<String>>,
    fatal: Mutex<Vec<String>>,
    pub seed: u64,
}

fn case_size(v: &Value) -> (usize, String) {
    let s = v.to_string();
    (s.len(), s)
}

impl Sink {
    pub fn new(prop: &str, seed: u64) -> Sink {
        Sink {
            prop: prop.to_string(),
            viol: Mutex::new(BTreeMap::new()),
            total: std::sync::atomic::AtomicU64::new(0),
            samples: Mutex::new(Vec::new()),
            notes: Mutex::new(Vec::new()),
            fatal: Mutex::new(Vec::new()),
            seed,
        }
    }

    pub fn violation(&self, monitor: &str, signature: &str, case: Value, detail: String) {
        self.total.fetch_add(1, std::sync::atomic::Ordering::Relaxed);
        let mut g = self.viol.lock().unwrap();
        let key = format!("{}|{}", monitor, signature);
        match g.get_mut(&key) {
            Some(v) => {
                v.count += 1;
                if case_size(&case) < case_size(&v.case) {
                    v.case = case;
                    v.detail = detail;
                }
            }
            None => {
                // keep the map bounded but deterministic: retain the MAX_SIGS*4 smallest keys
                g.insert(key, Violation { monitor: monitor.to_string(), signature: signature.to_string(), case, detail, count: 1 });
                if g.len() > MAX_SIGS * 8 {
                    let last = g.keys().next_back().cloned().unwrap();
                    g.remove(&last);
                }
            }
        }
    }

    pub fn violation_count(&self) -> u64 {
        self.total.load(std::sync::atomic::Ordering::Relaxed)
    }

    pub fn too_many(&self) -> bool {
        self.total.load(std::sync::atomic::Ordering::Relaxed) > 100_000
    }

    /// record an explored case for the evidence file (bounded)
    pub fn sample(&self, f: impl FnOnce() -> Value) {
        let mut g = self.samples.lock().unwrap();
        if g.len() < 8 {
            g.push(f());
        }
    }
    pub fn want_sample(&self, index: u64) -> bool {
        // VERIF_SEED only rotates which explored cases are written out as samples
        index % 997 == self.seed % 997
    }

    pub fn note(&self, s: String) {
        let mut g = self.notes.lock().unwrap();
        if g.len() < 50 {
            g.push(s);
        }
    }

    /// something that makes a verdict impossible (e.g. the library cannot construct a start
    /// position while another property is being checked): the run ends with MACHINERY-ERROR
    pub fn fatal(&self, s: String) {
        let mut g = self.fatal.lock().unwrap();
        if g.len() < 20 {
            g.push(s);
        }
    }
    pub fn fatals(&self) -> Vec<String> {
        self.fatal.lock().unwrap().clone()
    }
    /// a start position / curated legal line could not be constructed. For C06 this is the
    /// violation itself (positions reached by legal play from every start position — zero moves
    /// included — must be handed out and accepted); for every other property no verdict is possible.
    pub fn start_failed(&self, what: &str, case: Value, detail: String) {
        if self.prop == "C06" {
            self.violation("C06.start", what, case, detail);
        } else {
            self.fatal(format!("{}: {}", what, detail));
        }
    }

    pub fn take_samples(&self) -> Vec<Value> {
        self.samples.lock().unwrap().clone()
    }
    pub fn take_notes(&self) -> Vec<String> {
        self.notes.lock().unwrap().clone()
    }

    /// violations to report: sorted by (case size, key), at most MAX_SIGS
    pub fn reportable(&self) -> Vec<Violation> {
        let g = self.viol.lock().unwrap();
        let mut v: Vec<Violation> = g.values().cloned().collect();
        v.sort_by(|a, b| case_size(&a.case).cmp(&case_size(&b.case)).then(a.monitor.cmp(&b.monitor)));
        v.truncate(MAX_SIGS);
        v
    }
    pub fn all_violations(&self) -> Vec<Violation> {
        self.viol.lock().unwrap().values().cloned().collect()
    }
}

/// One universe's contribution to the evidence.
pub struct UniverseReport {
    pub name: String,
    pub bounds: Value,
    pub tally: Tally,
    pub exhaustive: bool,
    pub wall_s: f64,
}

pub struct Run {
    pub prop: String,
    pub tier: String,
    pub seed: u64,
    pub config: String,
    pub start: Instant,
    pub sink: Sink,
    pub universes: Vec<UniverseReport>,
    pub assumptions: Vec<String>,
    pub rule: String,
    pub caps: Vec<String>,
    pub extra: Map<String, Value>,
    /// appended to universe names (when one property runs several plans)
    pub tag: String,
}

impl Run {
    pub fn new(prop: &str, tier: &str, config: &str) -> Run {
        let seed = std::env::var("VERIF_SEED").ok().and_then(|s| s.parse::<u64>().ok()).unwrap_or(0);
        Run {
            prop: prop.to_string(),
            tier: tier.to_string(),
            seed,
            config: config.to_string(),
            start: Instant::now(),
            sink: Sink::new(prop, seed),
            universes: Vec::new(),
            assumptions: Vec::new(),
            rule: String::new(),
            caps: Vec::new(),
            extra: Map::new(),
            tag: String::new(),
        }
    }
    pub fn quick(&self) -> bool {
        self.tier == "quick"
    }
    pub fn add(&mut self, name: &str, bounds: Value, exhaustive: bool, t0: Instant, tally: Tally) {
        let name = &format!("{}{}", name, self.tag);
        eprintln!(
            "[{} {} {}] {:<28} states={} transitions={} validated={} evals={} nontrivial={} ({:.1}s) viol={}",
            self.prop,
            self.tier,
            self.config,
            name,
            tally.states,
            tally.transitions,
            tally.validated,
            tally.evals,
            tally.nontrivial,
            t0.elapsed().as_secs_f64(),
            self.sink.violation_count()
        );
        self.universes.push(UniverseReport { name: name.to_string(), bounds, tally, exhaustive, wall_s: t0.elapsed().as_secs_f64() });
    }
    pub fn assume(&mut self, s: &str) {
        self.assumptions.push(s.to_string());
    }

    /// JSON of this run (a "partial": one configuration). `merge_partials` turns one or more of
    /// these into the evidence file.
    pub fn partial(&self) -> Value {
        let mut total = Tally::default();
        let mut unis = Vec::new();
        let mut all_exh = !self.universes.is_empty();
        for u in &self.universes {
            total.absorb(u.tally.clone());
            all_exh &= u.exhaustive;
            unis.push(json!({
                "name": u.name, "config": self.config, "bounds": u.bounds, "exhaustive_within_bounds": u.exhaustive,
                "states": u.tally.states, "transitions": u.tally.transitions, "validated": u.tally.validated,
                "evaluations": u.tally.evals, "distinct_nontrivial": u.tally.nontrivial,
                "outcomes": u.tally.hist.iter().map(|(k, v)| (k.to_string(), json!(v))).collect::<Map<String, Value>>(),
                "wall_s": u.wall_s,
            }));
        }
        let mut caps = self.caps.clone();
        if self.sink.too_many() {
            caps.push("more than 100000 violations: exploration was cut short after that point".to_string());
        }
        json!({
            "property_id": self.prop, "tier": self.tier, "seed": self.seed, "config": self.config,
            "states": total.states, "transitions": total.transitions, "validated": total.validated,
            "evaluations": total.evals, "distinct_nontrivial": total.nontrivial,
            "outcomes": total.hist.iter().map(|(k, v)| (k.to_string(), json!(v))).collect::<Map<String, Value>>(),
            "universes": unis, "samples": self.sink.take_samples(), "notes": self.sink.take_notes(),
            "assumptions": self.assumptions, "rule": self.rule,
            "caps_hit": caps,
            "all_universes_enumerated_completely": all_exh,
            "violations": self.sink.violation_count(), "wall_s": self.start.elapsed().as_secs_f64(),
            "extra": Value::Object(self.extra.clone()),
        })
    }
}

// ------------------------------------------------------------------------------------------------
// known findings

pub struct Known {
    pub entries: Vec<Value>,
}

impl Known {
    pub fn load() -> Result<Known, String> {
        let path = format!("{}/known_findings.json", VERIF);
        let txt = std::fs::read_to_string(&path).map_err(|e| format!("cannot read {}: {}", path, e))?;
        let v: Value = serde_json::from_str(&txt).map_err(|e| format!("{}: {}", path, e))?;
        let entries = v.get("known").and_then(|k| k.as_array()).cloned().unwrap_or_default();
        Ok(Known { entries })
    }
    /// a violation is a listed finding iff property, monitor and the exact failing case match
    pub fn matches(&self, prop: &str, v: &Violation) -> Option<String> {
        for e in &self.entries {
            if e.get("property").and_then(|x| x.as_str()) == Some(prop)
                && e.get("monitor").and_then(|x| x.as_str()) == Some(&v.monitor)
                && e.get("case") == Some(&v.case)
            {
                return Some(e.get("what").and_then(|x| x.as_str()).unwrap_or("").to_string());
            }
        }
        None
    }
}

// ------------------------------------------------------------------------------------------------
// finishing a run: replay files, VIOLATION lines, partial file. Returns the process exit code.

pub fn finish(run: &Run, partial_path: &str, replay_check: &dyn Fn(&Value) -> Result<(), String>) -> i32 {
    let known = match Known::load() {
        Ok(k) => k,
        Err(e) => {
            println!("MACHINERY-ERROR {}", e);
            return 2;
        }
    };
    // a violation that was found stands on its own; "no verdict" only when nothing was found
    let fatals = run.sink.fatals();
    if !fatals.is_empty() && run.sink.violation_count() == 0 {
        for f in fatals {
            println!("MACHINERY-ERROR no verdict possible for {}: {}", run.prop, f);
        }
        return 2;
    }
    let mut exit = 0;
    // Known findings suppress only the exact listed case; if *any* violation of a signature is not
    // listed the smallest unlisted one is reported.
    let mut n = 0;
    let mut known_lines = Vec::new();
    for v in run.sink.reportable() {
        if let Some(what) = known.matches(&run.prop, &v) {
            known_lines.push(format!("KNOWN-FINDING: property={} {}", run.prop, what));
            continue;
        }
        n += 1;
        let file = format!("{}/replays/{}-{}-{}.json", VERIF, run.prop, run.config, n);
        let body = json!({
            "property": run.prop, "config": run.config, "monitor": v.monitor, "signature": v.signature,
            "case": v.case, "detail": v.detail, "occurrences_in_run": v.count, "tier": run.tier,
        });
        // a replay must reproduce (twice, identically) without the explorer before it is reported
        let r1 = replay_check(&body);
        let r2 = replay_check(&body);
        match (&r1, &r2) {
            (Err(a), Err(b)) if a == b && !a.starts_with("MACHINERY") => {}
            _ => {
                println!(
                    "MACHINERY-ERROR replay of a found violation did not reproduce deterministically: monitor={} case={} first={:?} second={:?}",
                    v.monitor, v.case, r1, r2
                );
                return 2;
            }
        }
        let _ = std::fs::create_dir_all(format!("{}/replays", VERIF));
        if let Err(e) = std::fs::write(&file, serde_json::to_string_pretty(&body).unwrap()) {
            println!("MACHINERY-ERROR cannot write {}: {}", file, e);
            return 2;
        }
        println!("VIOLATION property={} replay={}", run.prop, file);
        println!("  monitor={} occurrences={} detail: {}", v.monitor, v.count, v.detail);
        println!("  case: {}", v.case);
        exit = 1;
    }
    for l in known_lines {
        println!("{}", l);
    }
    let mut p = run.partial();
    p["unlisted_violation_signatures"] = json!(n);
    if let Some(dir) = std::path::Path::new(partial_path).parent() {
        let _ = std::fs::create_dir_all(dir);
    }
    if let Err(e) = std::fs::write(partial_path, serde_json::to_string_pretty(&p).unwrap()) {
        println!("MACHINERY-ERROR cannot write {}: {}", partial_path, e);
        return 2;
    }
    exit
}

/// Merge per-configuration partials into /verif/evidence/<ID>.json.
pub fn merge_partials(prop: &str, tier: &str, paths: &[String]) -> Result<(), String> {
    let mut parts = Vec::new();
    for p in paths {
        let txt = std::fs::read_to_string(p).map_err(|e| format!("cannot read partial {}: {}", p, e))?;
        let v: Value = serde_json::from_str(&txt).map_err(|e| format!("{}: {}", p, e))?;
        parts.push(v);
    }
    if parts.is_empty() {
        return Err("no partial results".into());
    }
    let sum = |k: &str| -> u64 { parts.iter().map(|p| p[k].as_u64().unwrap_or(0)).sum() };
    let mut universes = Vec::new();
    let mut samples = Vec::new();
    let mut notes = Vec::new();
    let mut assumptions: Vec<Value> = Vec::new();
    let mut caps = Vec::new();
    let mut outcomes: BTreeMap<String, u64> = BTreeMap::new();
    let mut exhaustive = true;
    let mut wall = 0.0;
    let mut rule = String::new();
    let mut extra = Map::new();
    for p in &parts {
        universes.extend(p["universes"].as_array().cloned().unwrap_or_default());
        for s in p["samples"].as_array().cloned().unwrap_or_default() {
            if samples.len() < 12 {
                samples.push(s);
            }
        }
        notes.extend(p["notes"].as_array().cloned().unwrap_or_default());
        for a in p["assumptions"].as_array().cloned().unwrap_or_default() {
            if !assumptions.contains(&a) {
                assumptions.push(a);
            }
        }
        caps.extend(p["caps_hit"].as_array().cloned().unwrap_or_default());
        if let Some(o) = p["outcomes"].as_object() {
            for (k, v) in o {
                *outcomes.entry(k.clone()).or_insert(0) += v.as_u64().unwrap_or(0);
            }
        }
        exhaustive &= p["all_universes_enumerated_completely"].as_bool().unwrap_or(false);
        wall += p["wall_s"].as_f64().unwrap_or(0.0);
        if rule.is_empty() {
            rule = p["rule"].as_str().unwrap_or("").to_string();
        }
        if let Some(o) = p["extra"].as_object() {
            for (k, v) in o {
                extra.insert(format!("{}:{}", p["config"].as_str().unwrap_or("?"), k), v.clone());
            }
        }
    }
    let distinct_outcomes = outcomes.len();
    let mut coverage = json!({
        "states": sum("states"),
        "transitions": sum("transitions"),
        "traces_validated_against_impl": sum("validated"),
        "samples": samples,
        "evaluations": sum("evaluations"),
        "distinct_nontrivial": sum("distinct_nontrivial"),
        "rule": rule,
        "exhaustive": exhaustive && caps.is_empty(),
        "exhaustive_note": "true only if every universe of this run is a finite space enumerated completely within its stated bounds (see universes[].bounds) and no cap was hit; the property's own quantifier is larger, see assumptions",
        "universes": universes,
        "outcomes": outcomes,
        "distinct_outcomes": distinct_outcomes,
        "caps_hit": caps,
        "configurations": parts.iter().map(|p| p["config"].clone()).collect::<Vec<_>>(),
        "notes": notes,
    });
    for (k, v) in extra {
        coverage[k] = v;
    }
    let ev = json!({
        "property_id": prop,
        "tier": tier,
        "seed": parts[0]["seed"],
        "level": "model_checking",
        "coverage": coverage,
        "assumptions": assumptions,
        "wall_s": wall,
        "violations": sum("unlisted_violation_signatures"),
    });
    let dir = format!("{}/evidence", VERIF);
    std::fs::create_dir_all(&dir).map_err(|e| e.to_string())?;
    let path = format!("{}/{}.json", dir, prop);
    std::fs::write(&path, serde_json::to_string_pretty(&ev).unwrap()).map_err(|e| format!("cannot write {}: {}", path, e))?;
    Ok(())
}
