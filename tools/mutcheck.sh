#!/bin/bash
# tools/mutcheck.sh <patch.diff> <tier> <ID>...
# Evaluate checks against a seeded fault WITHOUT touching /repo: the patch is applied to a scratch
# worktree of /repo's HEAD ($M/r), mcx is built against it through a cargo `paths` override,
# and the engines are run directly. Only for development; registered checks always use /repo.
patch=$1; tier=$2; shift 2
M=${MUT:-/tmp/mut}; W=$M/r
[ -d $W ] || git -C /repo worktree add -q --detach $W HEAD
git -C $W checkout -q --detach $(git -C /repo rev-parse HEAD) 2>/dev/null
git -C $W checkout -- . ; git -C $W clean -fdq
git -C $W apply "$patch" || { echo "patch does not apply"; exit 2; }
cd /verif/mc
ov='paths=["'"$M"'/r/cozy-chess","'"$M"'/r/types"]'
CARGO_TARGET_DIR=$M/target cargo build --offline --profile chk -p mcx --config "$ov" >$M/build.log 2>&1 || { echo "BUILD FAILED"; tail -20 $M/build.log; git -C $W checkout -- .; exit 2; }
need_rel=0; need_pext=0
for id in "$@"; do case $id in C05|C17|C18|C19|C02|C06|C14) need_rel=1;; esac; case $id in C01|C05) need_pext=1;; esac; done
[ $need_rel = 1 ] && CARGO_TARGET_DIR=$M/target-rel cargo build --offline --release -p mcx --config "$ov" >>$M/build.log 2>&1
[ $need_pext = 1 ] && CARGO_TARGET_DIR=$M/target-pext RUSTFLAGS="-C target-feature=+bmi2" cargo build --offline --profile chk -p mcx --features pext --config "$ov" >>$M/build.log 2>&1
cd /verif
for id in "$@"; do
  cfgs="mut-chk"
  case $id in C05|C17|C18|C19|C02|C06|C14) cfgs="mut-chk mut-rel";; esac
  case $id in C01|C05) cfgs="$cfgs mut-pext";; esac
  for cfg in $cfgs; do
    case $cfg in mut-chk) bin=$M/target/chk/mcx;; mut-rel) bin=$M/target-rel/release/mcx;; mut-pext) bin=$M/target-pext/chk/mcx;; esac
    out=$($bin run $id $tier --config $cfg --partial $M/partial.json 2>/dev/null); rc=$?
    echo "$id [$cfg] rc=$rc $(echo "$out" | grep -E '^(VIOLATION|MACHINERY)' | head -1 | cut -c1-80) | $(echo "$out" | grep -E '^  monitor=' | head -1 | cut -c1-240)"
  done
done
git -C $W checkout -- . ; git -C $W clean -fdq
