#!/bin/bash
# run every check of one tier, print a summary table
tier=${1:-quick}
cd /verif
for n in $(seq -w 1 20); do
  id=C$n
  s=$(date +%s.%N)
  out=$(./check $id $tier 2>/dev/null); rc=$?
  e=$(date +%s.%N)
  printf "%s rc=%s %.1fs %s\n" $id $rc $(echo "$e - $s" | bc) "$(echo "$out" | grep -c '^VIOLATION')"
  [ $rc -ne 0 ] && echo "$out" | grep -E "^(VIOLATION|MACHINERY|KNOWN)" | head -5
done
