#!/usr/bin/env python3
"""Development aid (NOT a check): generate simple operator mutants of the library, one line each,
in the scratch worktree /tmp/mut/r, and run the quick checks anchored to the mutated file through
tools/mutcheck.sh. Prints which mutants no check notices (candidates for blind spots or equivalent
mutants). Usage: mutation_campaign.py <max-per-file> [file-substring]"""
import re, subprocess, sys, os, json, hashlib

R = '/tmp/mut/r'
FILES = {
 'cozy-chess/src/board/movegen/mod.rs': ['C01', 'C04', 'C16'],
 'cozy-chess/src/board/mod.rs': ['C02', 'C03', 'C14', 'C12', 'C13', 'C10', 'C15'],
 'cozy-chess/src/board/validate.rs': ['C06', 'C09', 'C08'],
 'cozy-chess/src/board/parse.rs': ['C08', 'C07'],
 'cozy-chess/src/board/builder.rs': ['C09', 'C06'],
 'cozy-chess/src/board/zobrist.rs': ['C10', 'C11', 'C13'],
 'cozy-chess/src/board/movegen/piece_moves.rs': ['C17', 'C01'],
 'cozy-chess/src/util/mod.rs': ['C20'],
 'cozy-chess/src/moves.rs': ['C05', 'C01'],
 'types/src/bitboard.rs': ['C18'],
 'types/src/square.rs': ['C19', 'C05'],
 'types/src/chess_move.rs': ['C19'],
 'types/src/sliders/common.rs': ['C05'],
 'types/src/file.rs': ['C19'],
 'types/src/rank.rs': ['C19'],
}
OPS = [
 (r' == ', ' != '), (r' != ', ' == '), (r' < ', ' <= '), (r' <= ', ' < '), (r' > ', ' >= '), (r' >= ', ' > '),
 (r' && ', ' || '), (r' \|\| ', ' && '), (r'\btrue\b', 'false'), (r'\bfalse\b', 'true'),
 (r'!color', 'color'), (r'\(color\b', '(!color'), (r'\.short\b', '.long'), (r'\.long\b', '.short'),
 (r'File::G', 'File::F'), (r'File::C', 'File::D'), (r'Rank::First', 'Rank::Second'), (r'Rank::Eighth', 'Rank::Seventh'),
 (r' \+ 1\b', ' + 2'), (r' - 1\b', ' - 2'), (r'\b0 =>', '1 =>'), (r' \| ', ' & '), (r' & ', ' | '), (r' \^ ', ' | '),
 (r'saturating_add\(1\)', 'wrapping_add(1)'), (r'> 100', '> 99'), (r'< 100', '< 101'), (r'\.is_empty\(\)', '.is_empty() == false'),
]

def code_lines(path):
    out = []
    src = open(os.path.join(R, path)).read().split('\n')
    in_tests = False
    for i, l in enumerate(src):
        if re.match(r'\s*mod tests \{', l):
            in_tests = True
        st = l.strip()
        if in_tests or st.startswith('//') or st.startswith('#[') or not st:
            continue
        out.append(i)
    return src, out

def main():
    per_file = int(sys.argv[1]) if len(sys.argv) > 1 else 3
    only = sys.argv[2] if len(sys.argv) > 2 else ''
    results = []
    for path, checks in FILES.items():
        if only and only not in path:
            continue
        src, idxs = code_lines(path)
        cands = []
        for i in idxs:
            for (pat, rep) in OPS:
                for m in re.finditer(pat, src[i]):
                    new = src[i][:m.start()] + re.sub(pat, rep, src[i][m.start():m.end()]) + src[i][m.end():]
                    cands.append((i, pat, new))
        # deterministic spread: order by hash, take the first per_file
        cands.sort(key=lambda c: hashlib.md5((path + str(c[0]) + c[1] + c[2]).encode()).hexdigest())
        taken = 0
        for (i, pat, new) in cands:
            if taken >= per_file:
                break
            mutated = src[:]
            mutated[i] = new
            subprocess.run(['git', '-C', R, 'checkout', '-q', '--', '.'])
            open(os.path.join(R, path), 'w').write('\n'.join(mutated))
            diff = subprocess.run(['git', '-C', R, 'diff'], capture_output=True, text=True).stdout
            subprocess.run(['git', '-C', R, 'checkout', '-q', '--', '.'])
            name = f"/tmp/own/auto-{hashlib.md5(diff.encode()).hexdigest()[:8]}.diff"
            open(name, 'w').write(diff)
            r = subprocess.run(['/verif/tools/mutcheck.sh', name, 'quick'] + checks, capture_output=True, text=True).stdout
            if 'BUILD FAILED' in r:
                continue
            taken += 1
            killed = [l.split()[0] for l in r.split('\n') if ' rc=1 ' in l]
            mach = [l.split()[0] for l in r.split('\n') if ' rc=2 ' in l]
            print(f"{path}:{i+1}: `{src[i].strip()[:70]}` -> `{new.strip()[:70]}`  killed_by={killed} machinery={mach}", flush=True)
            results.append({'file': path, 'line': i + 1, 'old': src[i].strip(), 'new': new.strip(), 'killed_by': killed, 'machinery': mach, 'diff': name})
    json.dump(results, open('/tmp/own/campaign.json', 'w'), indent=1)
    surv = [r for r in results if not r['killed_by']]
    print(f"\n{len(results)} mutants, {len(surv)} not noticed by the checks run:")
    for r in surv:
        print(f"  {r['file']}:{r['line']}: {r['old'][:60]} -> {r['new'][:60]} ({r['diff']})")

main()
