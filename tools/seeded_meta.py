#!/usr/bin/env python3
"""Writes /verif/seeded/<id>/meta.json from the table below + confirm.json + detection results
(/verif/seeded/<id>/detect.txt, produced by tools/mutcheck.sh). Edit the table, not the JSON."""
import json, os, glob

META = {
 "C01-a": ("C01", "can_castle tests the pin on rook_dest instead of rook: castling with a pinned castling rook is generated",
           "Chess960 geometry: long-castling rook on the b-file, enemy rook/queen in the a-file corner behind it, c and d empty (e.g. 4k3/8/8/8/8/8/8/rR2K3 w B - 0 1)"),
 "C01-b": ("C01", "en-passant diagonal exposure test only runs when the capturing pawn itself is on a king diagonal",
           "a double push that uncovers a diagonal check (or an accepted-but-unreachable en-passant position) where the capturer is off the king's diagonals"),
 "C02-a": ("C02", "half-move clock not capped at 100 on the castling branch of play_unchecked",
           "castling (any wing/colour/960 geometry) with the half-move clock already at exactly 100"),
 "C02-b": ("C02", "long castling right dropped when any rook on the right's FILE moves (back-rank condition lost on the long side)",
           "a second rook of the side on the long right's file but off the back rank moves (rook lift, promoted rook, doubled rooks)"),
 "C03-a": ("C03", "play_unchecked stops scanning sliders once two checkers are found: later pins are missing",
           "a move giving double check while a further slider of the mover (higher square index) pins a piece against the enemy king"),
 "C03-b": ("C03", "null_move masks the recomputed pins with the mover's own pieces (enemy-coloured blockers dropped)",
           "a null move into a position where an ENEMY piece stands alone between the new mover's king and an enemy slider; visible only on the null-move result itself"),
 "C04-a": ("C04", "is_legal lost the double-check guard for pawns",
           "double check where a pawn could capture or block the first checker (e.g. 4r2k/8/8/8/8/5n2/6P1/4K3 w - - 0 1, g2f3)"),
 "C04-b": ("C04", "en-passant loop `break`s instead of `continue`s on an orthogonal exposure: the second capturer is dropped by generation but not by is_legal",
           "two pawns attack the en-passant square, the lower-file one is pinned along its file/rank, the other is free"),
 "C06-a": ("C06", "en_passant_is_valid tests the checker's ray against the passed square instead of the origin square",
           "a double push that uncovers a slider check: the reachable position is rejected when re-entered (shortest: Chess960 start 1, five plies)"),
 "C06-b": ("C06", "castle_rights_are_valid accepts a right backed by ANY rook (colour mask dropped)",
           "an enemy rook on the named file of the claiming side's back rank (unreachable, accepted by text and builder)"),
 "C10-a": ("C10", "set_en_passant toggles `prev xor new`: replacing one file by another toggles neither key",
           "a double push answered immediately by a double push on another file (1. e4 c5); the hash stays wrong for the rest of the history"),
 "C10-b": ("C10", "fused pass_turn() clears the field before hash_without_ep reads it: the en-passant key survives a null move",
           "null_move() on a board whose en-passant file is set"),
 "C05-a": ("C05", "get_line_rays(s, s) is no longer empty", "equal squares — never asked by the library itself"),
 "C05-b": ("C05", "off-by-one in the rook F6 black-magic offset: one table slot is overwritten by rook H7's entry",
           "default (magic) back end only: get_rook_moves(F6, occ) with c6 d6 e6 g6 occupied, b6 and f2-f5, f7 empty"),
 "C07-a": ("C07", "en_passant_is_valid uses ep_square instead of ep_source for the discovered-check test",
           "board reached by a double push that uncovers a slider check: its own text no longer parses"),
 "C07-b": ("C07", "play_unchecked drops enemy-coloured blockers from the incremental pin set",
           "a played board where the mover's king is shielded from an enemy slider by exactly one ENEMY piece: parse(format(b)) != b"),
 "C08-a": ("C08", "en-passant field split with split_at(1) after a byte-length test: panics on a 2-byte character",
           "first three fields valid and an en-passant field that is one 2-byte UTF-8 character"),
 "C08-b": ("C08", "king-on-back-rank test survives only for the long right",
           "king off its back rank, only the short right claimed, own rook on the named back-rank file: the record is accepted instead of InvalidCastlingRights"),
 "C09-a": ("C09", "parser accepts the en-passant square on either side's rank (3 or 6) regardless of the side to move",
           "en-passant square on the wrong side's rank with a genuine double-pushed pawn on that file: parser accepts, builder rejects"),
 "C09-b": ("C09", "builder drops the checkers_and_pins_are_valid() call (the only >= 3 checkers test)",
           "an unreachable placement with three or more checkers: builder accepts, parser rejects (this re-introduces defect D4)"),
 "C11-a": ("C11", "castle keys per wing instead of per rook file", "Chess960 geometry with two rooks of one colour on the same wing: rights on different files collide"),
 "C11-b": ("C11", "stale en-passant key when the file changes from one double push to the next",
           "two consecutive double pushes on different files, reached by play (text/builder hashes stay correct)"),
 "C12-a": ("C12", "status() fast path returns Ongoing for in-check positions at clock 100 that have an evasion",
           "half-move clock exactly 100, side to move in check with a legal evasion"),
 "C12-b": ("C12", "abort not propagated from the pinned-slider loop of move generation",
           "not in check and the only legal moves are pinned sliders moving along their pin line: status() says stalemate"),
}

for d in sorted(glob.glob('/verif/seeded/*/')):
    i = os.path.basename(d.rstrip('/'))
    if i not in META:
        print("no meta table entry for", i)
        continue
    prop, what, needs = META[i]
    conf = json.load(open(d + 'confirm.json')) if os.path.exists(d + 'confirm.json') else None
    det = open(d + 'detect.txt').read().strip().split('\n') if os.path.exists(d + 'detect.txt') else []
    caught = sorted({l.split()[0] for l in det if ' rc=1 ' in l})
    missed = sorted({l.split()[0] for l in det if ' rc=0 ' in l} - set(caught))
    m = {
        "id": i, "breaks_property": prop, "change": what, "needs_to_manifest": needs,
        "origin": "written by an independent sub-agent that saw only the property text and a scratch worktree",
        "what_i_ran": [
            "tools/confirm_seeded.sh " + i + "  (scratch worktree of /repo HEAD: demo passes without the change, fails with it; the whole existing suite passes with it)",
            "tools/mutcheck.sh /verif/seeded/" + i + "/patch.diff quick <checks>  (checker built against a scratch worktree carrying the change; /repo untouched)",
        ],
        "confirmation": conf,
        "quick_checks_reporting_a_violation": caught,
        "quick_checks_run_without_violation": missed,
        "detection_lines": det,
    }
    json.dump(m, open(d + 'meta.json', 'w'), indent=1)
    print(i, "confirmed" if conf and conf.get("confirmed") else "UNCONFIRMED", "caught by", caught)
