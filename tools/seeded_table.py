#!/usr/bin/env python3
import json, glob, os
rows = []
for f in sorted(glob.glob('/verif/seeded/*/meta.json')):
    m = json.load(open(f))
    caught = ", ".join(m["quick_checks_reporting_a_violation"]) or "— (see note)"
    ok = "yes" if m["confirmation"] and m["confirmation"]["confirmed"] else "NO"
    rows.append(f"| {m['id']} | {m['breaks_property']} | {m['change']} | {m['needs_to_manifest']} | {ok} | {caught} |")
print("| id | breaks | change | needs, to manifest | confirmed | quick checks that report it |")
print("|---|---|---|---|---|---|")
print("\n".join(rows))
