#!/usr/bin/env python3
"""Regenerates /verif/MANIFEST.json. Edit the tables here, not the JSON."""
import json, sys

IMPLEMENTED = sys.argv[1].split(',') if len(sys.argv) > 1 else []

TECH = {
 "C01": "bounded exhaustive explicit-state / stateless exploration of the real Board (BFS with exact keys over start, 960, DFRC and curated roots; complete small constructed universes) with lock-step refinement check of generate_moves against a mailbox reference model, in magic and PEXT builds",
 "C02": "bounded exhaustive exploration of every legal-move edge of the same universes; alpha(successor) compared field by field with the reference model's successor (refinement, transition side); clock roots repeated in the release profile",
 "C03": "explicit-state search with null-move deviations (<=2): checkers/pins vs literal definition in every state, equality with freshly parsed/built boards, equality of boards on every merge of histories with the same exact key",
 "C04": "bounded exhaustive exploration x complete enumeration of all 28,672 move values per visited state: is_legal vs generated set",
 "C05": "complete enumeration of finite argument spaces (all on-ray occupancy subsets per square x off-ray menu, all squares, all square pairs) against a ray-walking reference, in magic-chk, magic-rel and PEXT builds",
 "C06": "complete enumeration of small constructed builder-state universes (3/4-man, castling geometry, en passant, multi-check, one-edit neighbours) through builder and parser with a clause-by-clause soundness oracle; bounded exhaustive exploration from all 960x960 starts for acceptance; boards handed out around the clock limits also in the release profile",
 "C07": "bounded exhaustive exploration; every visited board is formatted, compared with the reference canonical record, parsed back and re-formatted; merged histories compared",
 "C08": "exhaustive enumeration of bounded string universes (all single edits of canonical records over a FEN alphabet, Cartesian product of per-field menus, all short strings) against a strict reference decoder; generator-driven expected error for single-field faults",
 "C09": "complete enumeration of constructed builder-state universes: build() vs from_fen(record) agreement, rejection of inexpressible states, from_board round trip, attribution for single-aspect faults",
 "C10": "explicit-state search with a position-only (clock-free) map: every arrival at the same position by transposition, null-move detour, other clocks or other root must carry the same hash; three construction routes per state",
 "C11": "black-box extraction of all Zobrist feature keys from the real library, linearity validated on every board of the explored universes, then complete decision over all realizable 1..4-feature differences via a sorted pair table",
 "C12": "bounded exhaustive exploration incl. complete 3-man (and 4-man) universes containing all elementary mates/stalemates, each state also at half-move clock 0/99/100: status vs reference definition",
 "C13": "bounded exhaustive exploration; per state an exhaustively compared cluster of variants (ep files, clocks, rights, successors): same_position on all ordered pairs vs reference FIDE identity, plus equivalence-relation laws on observed answers",
 "C14": "explicit-state search in which null moves are transitions (deviation bound <=2): refusal iff in check, result vs reference model and vs freshly constructed boards; clock roots repeated in the release profile",
 "C15": "bounded exhaustive exploration x all 28,672 move values per visited state through try_play (and panicking play on a smaller family): acceptance vs reference legality, result equality, atomicity on failure",
 "C16": "bounded exhaustive exploration x mask menu x every listener abort point: delivered moves vs reference legal moves filtered by origin, batch invariants, abort contract",
 "C17": "exhaustive enumeration over 6 pieces x 64 origins x a finite family of destination sets x queried moves against a reference enumeration, in builds with and without overflow checks",
 "C18": "exhaustive enumeration over a finite family of bitboards (all ordered pairs) against a [bool;64] reference set; complete subset iteration for all masks up to 14 bits; in builds with and without overflow checks",
 "C19": "complete enumeration: 64 squares x 256 x 256 offset pairs in builds with and without overflow checks; every Unicode scalar value for char conversions; all short strings for FromStr",
 "C20": "bounded exhaustive exploration: every legal move of every visited board through the SAN/UCI writers vs reference canonical SAN / standard UCI and back through the readers; exhaustive component-grammar string universe for the SAN reader",
}
NOTE = "Trusted base: the reference model in /verif/mc/refmodel (validated against published perft values before every run), rustc/cargo, and the harness. Coverage is exhaustive only within the bounds written to the evidence file (universes[].bounds); the property's own quantifier (all accepted boards / all strings / all 2^64 sets) is larger."

def check(pid):
    return {
        "property_id": pid,
        "quick_cmd": f"./check {pid} quick",
        "thorough_cmd": f"./check {pid} thorough",
        "evidence_file": f"/verif/evidence/{pid}.json",
        "replay_cmd_template": "./check replay {path}",
        "engine": "mcx",
        "level_claimed": {
            "category": "model_checking",
            "text": "Bounded exhaustive exploration of the real library code against a reference model: every state / transition / argument tuple inside the stated bounds is enumerated and checked (no sampling). " + TECH[pid],
            "design_ref": f"DESIGN.md section 5 ({pid}), sections 2-4 for the engine and universes",
        },
        "level_note": NOTE,
        "technique": TECH[pid],
    }

allp = [f"C{n:02d}" for n in range(1, 21)]
m = {
  "version": 1,
  "setup_cmd": "./setup.sh",
  "hooks": {
    "guard": "cozy_chess_verif",
    "enable": "no hooks are needed: every property is observable through the public API; checks build /repo/cozy-chess as a path dependency of /verif/mc (profiles chk / release, feature pext)",
    "baseline_off_cmd": "cd /repo && cargo test --workspace --no-fail-fast --offline",
    "source_commits": [],
    "add_only": True,
  },
  "engines": [
    {"name": "mcx", "path": "/verif/mc/mcx", "serves_properties": [p for p in allp if p in IMPLEMENTED],
     "kind_free_text": "hand-rolled explicit-state BFS (exact keys, merge comparison) and stateless DFS over the real cozy_chess::Board, driven by a Rust mailbox reference model (/verif/mc/refmodel); parallel over 16 cores; builds /repo's working tree in three configurations (magic+overflow checks, magic release, PEXT)"},
  ],
  "checks": [check(p) for p in allp if p in IMPLEMENTED],
  "notes": "exit 0 = held on everything explored; exit 1 + VIOLATION line = counterexample with replay file under /verif/replays; exit 2 + MACHINERY-ERROR = no verdict. Genuine defects found and repaired are listed in /verif/known_findings.json (fixed entries suppress nothing).",
  "not_applicable": [{"property_id": p, "reason": "check not built yet (work in progress); the design gives a bounded exhaustive procedure for it"} for p in allp if p not in IMPLEMENTED],
}
json.dump(m, open('/verif/MANIFEST.json', 'w'), indent=1)
print("wrote MANIFEST.json with", len(m["checks"]), "checks")
