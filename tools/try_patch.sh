#!/bin/bash
# tools/try_patch.sh <patch.diff> <tier> <ID>...   apply a seeded fault to /repo, run the checks, undo it.
# Prints one line per check: "<ID> rc=<rc> <first VIOLATION/MACHINERY line>". Never leaves /repo modified.
patch=$1; tier=$2; shift 2
cd /repo || exit 2
if [ -n "$(git status --porcelain --untracked-files=no)" ]; then echo "REFUSING: /repo has local modifications"; exit 2; fi
git apply --check "$patch" || { echo "patch does not apply"; exit 2; }
git apply "$patch"
trap 'git -C /repo checkout -- . ' EXIT
cd /verif
for id in "$@"; do
  out=$(./check $id $tier 2>/dev/null); rc=$?
  echo "$id rc=$rc $(echo "$out" | grep -E '^(VIOLATION|MACHINERY)' | head -1) | $(echo "$out" | grep -E '^  monitor=' | head -1 | cut -c1-260)"
done
