#!/usr/bin/env python3
"""Prints markdown tables of measured coverage from evidence JSON files (dir given as argument)."""
import json, glob, sys
d = sys.argv[1] if len(sys.argv) > 1 else '/verif/evidence'
print("| property | tier | configurations | distinct states / cases | library transitions / calls | comparisons with the reference | distinct non-trivial | outcome classes | wall s |")
print("|---|---|---|---|---|---|---|---|---|")
unis = {}
for f in sorted(glob.glob(d + '/C*.json')):
    e = json.load(open(f)); c = e['coverage']
    print(f"| {e['property_id']} | {e['tier']} | {', '.join(c.get('configurations', []))} | {c['states']:,} | {c['transitions']:,} | {c['traces_validated_against_impl']:,} | {c['distinct_nontrivial']:,} | {c.get('distinct_outcomes','')} | {round(e['wall_s'])} |")
    for u in c.get('universes', []):
        unis.setdefault(u['name'], []).append((e['property_id'], u['config'], u['states'], u['evaluations']))
print()
print("| universe | used by (property: accepted states / cases) |")
print("|---|---|")
for n in sorted(unis):
    uses = "; ".join(f"{p}{'' if cfg=='magic-chk' else '['+cfg+']'}: {s:,}" for p, cfg, s, ev in unis[n])
    print(f"| {n} | {uses} |")
