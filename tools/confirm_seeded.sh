#!/bin/bash
# tools/confirm_seeded.sh <seeded-id> [target-dir]
# Confirms, in a scratch worktree of /repo's HEAD (never in /repo itself), that a seeded fault
#  (1) applies and compiles, (2) passes the repository's whole existing test suite,
#  (3) has a demonstration that passes without the change and fails with it.
# Writes /verif/seeded/<id>/confirm.json and confirm.log; removes the worktree afterwards.
id=$1
D=/verif/seeded/$id
W=/tmp/confirm-$id
T=${2:-/tmp/confirm-target-$id}
export CARGO_NET_OFFLINE=true CARGO_TARGET_DIR=$T
log=$D/confirm.log
: > $log
git -C /repo worktree remove --force $W >/dev/null 2>&1
git -C /repo worktree add -q --detach $W HEAD || exit 2
head=$(git -C /repo rev-parse --short HEAD)
cd $W
mkdir -p cozy-chess/tests
cp $D/demo.rs cozy-chess/tests/seeded_demo.rs
# optional per-fault settings for the demonstration (e.g. the PEXT back end)
DEMO_ARGS=""; DEMO_RUSTFLAGS=""
[ -f $D/demo.env ] && . $D/demo.env
echo "### demo on the unmodified tree" >> $log
RUSTFLAGS="$DEMO_RUSTFLAGS" cargo test --offline -p cozy-chess $DEMO_ARGS --test seeded_demo >> $log 2>&1; demo_clean=$?
git apply $D/patch.diff >> $log 2>&1; applies=$?
echo "### demo with the change" >> $log
RUSTFLAGS="$DEMO_RUSTFLAGS" cargo test --offline -p cozy-chess $DEMO_ARGS --test seeded_demo >> $log 2>&1; demo_mut=$?
rm -f cozy-chess/tests/seeded_demo.rs
echo "### full existing suite with the change" >> $log
cargo test --workspace --no-fail-fast --offline >> $log 2>&1; suite=$?
passed=$(grep -E "^test result: ok" $log | tail -4 | tr '\n' ';')
cd /verif
git -C /repo worktree remove --force $W
rm -rf $T
ok=false
if [ $applies -eq 0 ] && [ $demo_clean -eq 0 ] && [ $demo_mut -ne 0 ] && [ $suite -eq 0 ]; then ok=true; fi
cat > $D/confirm.json <<EOJ
{"id": "$id", "repo_head": "$head", "patch_applies": $([ $applies -eq 0 ] && echo true || echo false), "demo_passes_without_change": $([ $demo_clean -eq 0 ] && echo true || echo false), "demo_fails_with_change": $([ $demo_mut -ne 0 ] && echo true || echo false), "existing_suite_passes_with_change": $([ $suite -eq 0 ] && echo true || echo false), "confirmed": $ok, "suite_results": "$passed"}
EOJ
echo "$id confirmed=$ok (applies=$applies demo_clean=$demo_clean demo_mut=$demo_mut suite=$suite)"
