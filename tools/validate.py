#!/usr/bin/env python3
import json, sys, glob
import jsonschema
jsonschema.validate(json.load(open('/verif/MANIFEST.json')), json.load(open('/root/.vp/MANIFEST.schema.json')))
print('manifest ok')
es = json.load(open('/root/.vp/EVIDENCE.schema.json'))
for f in sorted(glob.glob('/verif/evidence/*.json')):
    try:
        jsonschema.validate(json.load(open(f)), es); print(f, 'ok')
    except Exception as e:
        print(f, 'INVALID', str(e)[:300])
